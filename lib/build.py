"""Build variants of libMultiMarkdown + harness programs directly from /repo's working tree.

No CMake (its configure step rewrites README.md inside the source tree).  Outputs are cached
under /verif/.cache/build/<key>/ where key = sha256(all files under src/ + templates/ + the
harness sources + the flag string), so a check always runs code compiled from the bytes that
are in the working tree right now, and identical trees are compiled once.
"""
import hashlib, os, re, subprocess, sys, fcntl, shutil, time
from concurrent.futures import ThreadPoolExecutor

VERIF = os.path.dirname(os.path.dirname(os.path.abspath(__file__)))
REPO = os.environ.get('VERIF_REPO', '/repo')
CACHE = os.path.join(VERIF, '.cache', 'build')
HARNESS = os.path.join(VERIF, 'harness')

LIB_SRC = """aho-corasick beamer char critic_markup d_string epub file html itmz itmz-lexer itmz-parser
itmz-reader latex lexer memoir miniz mmd object_pool opendocument opendocument-content opml
opml-lexer opml-parser opml-reader parser rng scanners stack textbundle token token_pairs
transclude uuid xml writer zip""".split()

COMMON = ['-g', '-fno-omit-frame-pointer', '-DNDEBUG', '-DMMD6_VERIF', '-w']
SAN = ['-fsanitize=address,undefined', '-fno-sanitize-recover=all']

VARIANTS = {
    # name: (compiler, cflags, ldflags)
    'asan':        ('gcc', ['-O1'] + SAN, SAN),
    'asan-nopool': ('gcc', ['-O1', '-DDISABLE_OBJECT_POOL'] + SAN, SAN),
    'tsan-nopool': ('gcc', ['-O1', '-DDISABLE_OBJECT_POOL', '-fsanitize=thread'], ['-fsanitize=thread']),
    'tsan':        ('gcc', ['-O1', '-fsanitize=thread'], ['-fsanitize=thread']),
    'cov':         ('gcc', ['-O1', '-fsanitize-coverage=trace-pc'], []),
    'cov-nopool':  ('gcc', ['-O1', '-DDISABLE_OBJECT_POOL', '-fsanitize-coverage=trace-pc'], []),
    'plain':       ('gcc', ['-O2'], []),
    'plain-nopool':('gcc', ['-O2', '-DDISABLE_OBJECT_POOL'], []),
    'fuzz':        ('clang-14', ['-O1', '-fsanitize=fuzzer-no-link,address,undefined',
                                 '-fno-sanitize-recover=all', '-fno-sanitize=object-size'],
                    ['-fsanitize=fuzzer,address,undefined']),
}
# per-file flag additions (policy decision documented in DESIGN.md 3.1)
PER_FILE = {'miniz': ['-fno-sanitize=alignment,nonnull-attribute']}
# harness files never get coverage instrumentation (they define the callback)
NO_COV = ['-fno-sanitize-coverage=trace-pc']


def _tree_hash(extra):
    h = hashlib.sha256()
    for root in (os.path.join(REPO, 'src'), os.path.join(REPO, 'templates'), HARNESS):
        for d, dirs, files in os.walk(root):
            dirs.sort()
            for f in sorted(files):
                if f.endswith(('.c', '.h', '.in', '.re', '.y')):
                    p = os.path.join(d, f)
                    h.update(p.encode()); h.update(b'\0')
                    with open(p, 'rb') as fh:
                        h.update(fh.read())
                    h.update(b'\0')
    with open(os.path.join(REPO, 'CMakeLists.txt'), 'rb') as fh:
        h.update(fh.read())
    h.update(extra.encode())
    return h.hexdigest()[:24]


def _version_h(dst):
    cm = open(os.path.join(REPO, 'CMakeLists.txt')).read()
    def g(k):
        m = re.search(r'set\s*\(\s*%s\s+"?([^")]*)"?\s*\)' % k, cm)
        return m.group(1) if m else '0'
    ver = '%s.%s.%s' % (g('My_Project_Version_Major'), g('My_Project_Version_Minor'), g('My_Project_Version_Patch'))
    with open(os.path.join(dst, 'version.h'), 'w') as f:
        f.write('#ifndef FILE_LIBMULTIMARKDOWN_H\n#define FILE_LIBMULTIMARKDOWN_H\n'
                '#define LIBMULTIMARKDOWN_NAME "MultiMarkdown"\n'
                '#define LIBMULTIMARKDOWN_VERSION "%s"\n'
                '#define LIBMULTIMARKDOWN_COPYRIGHT "Copyright (c) %s %s."\n'
                '#define LIBMULTIMARKDOWN_LICENSE "\\tMIT License\\n"\n#endif\n'
                % (ver, g('My_Project_Copyright_Date'), g('My_Project_Author')))


def _run(cmd):
    p = subprocess.run(cmd, stdout=subprocess.PIPE, stderr=subprocess.STDOUT)
    if p.returncode != 0:
        raise RuntimeError('build failed: %s\n%s' % (' '.join(cmd), p.stdout.decode(errors='replace')))


def build(variant, programs=('drv',), extra_defs=()):
    """Return dict program-name -> path of executables for `variant`.
    programs: harness program names (harness/<name>.c), or 'cli' for the multimarkdown binary."""
    cc, cflags, ldflags = VARIANTS[variant]
    flagstr = ' '.join([variant, cc] + cflags + ldflags + list(extra_defs))
    key = _tree_hash(flagstr)
    out = os.path.join(CACHE, key)
    os.makedirs(out, exist_ok=True)
    lock = open(os.path.join(out, '.lock'), 'w')
    fcntl.flock(lock, fcntl.LOCK_EX)
    try:
        lib = os.path.join(out, 'libmmd.a')
        inc = ['-I', os.path.join(REPO, 'src'), '-I', out]
        if not os.path.exists(lib):
            _version_h(out)
            def cc1(name):
                o = os.path.join(out, name + '.o')
                _run([cc] + COMMON + cflags + list(extra_defs) + PER_FILE.get(name, []) + inc +
                     ['-c', os.path.join(REPO, 'src', name + '.c'), '-o', o])
                return o
            with ThreadPoolExecutor(16) as ex:
                objs = list(ex.map(cc1, LIB_SRC))
            tmp = lib + '.tmp'
            if os.path.exists(tmp):
                os.unlink(tmp)
            _run(['ar', 'rcs', tmp] + objs)
            os.rename(tmp, lib)
            for o in objs:
                os.unlink(o)
        res = {}
        for prog in programs:
            exe = os.path.join(out, prog)
            if not os.path.exists(exe):
                hflags = [f for f in cflags if 'fuzzer-no-link' not in f]
                if cc == 'clang-14' and prog != 'fuzz_target':
                    ld = [f.replace('fuzzer,', '') for f in ldflags]
                else:
                    ld = ldflags
                if 'trace-pc' in ' '.join(cflags):
                    hflags = [f for f in hflags if 'trace-pc' not in f]
                if prog == 'cli':
                    srcs = [os.path.join(REPO, 'src', 'main.c'), os.path.join(REPO, 'src', 'argtable3.c'),
                            os.path.join(HARNESS, 'cli_sink.c')]
                    extra = []
                else:
                    srcs = [os.path.join(HARNESS, prog + '.c')]
                    extra = ['-Wl,--wrap=exit'] if prog in ('drv', 'fuzz_target') else []
                    if prog == 'fuzz_target':
                        hflags = cflags
                tmp = exe + '.tmp.%d' % os.getpid()
                _run([cc] + COMMON + ['-Werror=implicit-function-declaration'] + hflags + list(extra_defs) + inc + ['-I', HARNESS] + srcs + [lib] + ld + extra +
                     ['-lpthread', '-lm', '-o', tmp])
                os.rename(tmp, exe)
            res[prog] = exe
        return res
    finally:
        fcntl.flock(lock, fcntl.LOCK_UN)
        lock.close()


def gc(keep=12):
    """Remove all but the `keep` most recently used build directories."""
    if not os.path.isdir(CACHE):
        return
    ds = sorted((os.path.getmtime(os.path.join(CACHE, d)), d) for d in os.listdir(CACHE))
    for _, d in ds[:-keep]:
        shutil.rmtree(os.path.join(CACHE, d), ignore_errors=True)


if __name__ == '__main__':
    t = time.time()
    v = sys.argv[1] if len(sys.argv) > 1 else 'asan'
    print(build(v, tuple(sys.argv[2:]) or ('drv',)), round(time.time() - t, 1), 's')
