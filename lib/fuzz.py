"""libFuzzer tier for C01 (thorough): coverage-guided inputs over the text-accepting entry points.

run(chk, runs) builds harness/fuzz_target.c with clang (-fsanitize=fuzzer,address,undefined), seeds a corpus from
the repository's test documents, runs NPROC independent fuzzer processes sharing the corpus directory (each with
its own -seed derived from VERIF_SEED), then re-executes every artifact alone to obtain its report, keys it with
the same signature function as the worker-based checks, and turns it into a worker request (same decoding as
fuzz_target.c) so that replay and known-findings matching go through the usual path.
"""
import os, re, shutil, subprocess, tempfile, time, base64
from . import core, build, gen, drv as D

HDR = 6
TRANSCLUDE = D.EXT['TRANSCLUDE']


def decode(data):
    """artifact bytes -> worker request (variant, op, fmt, ext, lang, flags, args); keep in step with fuzz_target.c"""
    entry = data[0] & 7
    fmt = data[1] % 13
    ext = (data[2] | (data[3] << 8) | ((data[4] & 1) << 16)) & ~TRANSCLUDE
    lang = data[5] % 7
    text = data[HDR:]
    if b'\0' in text:
        text = text[:text.index(b'\0')]          # the target hands a C string to the library
    if entry == 4:
        return ('asan', 'META', 0, 0, 0, 0 | (1 << 4), [text, b'title', b''])
    if entry == 5:
        return ('asan', 'CRITIC', 0, 0, 0, 0 if data[1] & 1 else 1, [text])
    if entry == 6:
        return ('asan', 'IMPORT', 0, ext, lang, 0 | ((0 if data[1] & 1 else 1) << 4), [text])
    if entry == 7:
        n = len(text)
        a = data[2] % n if n else 0
        ln = data[3] % (n - a + 1) if n else 0
        return ('asan', 'WALK', 0, ext, 0, 1, [text, b'', str(a).encode(), str(ln).encode()])
    return ('asan', 'CONVERT', fmt, ext, lang, 0, [text])


def _dict_file(path):
    with open(path, 'w') as f:
        for i, tok in enumerate(gen.DICT):
            f.write('t%d="%s"\n' % (i, ''.join('\\x%02x' % c for c in tok)))


def _seed_corpus(cdir, rng):
    n = 0
    for data in gen.corpus_list():
        for k in range(2):
            fmt = rng.choice(gen.ALL_FORMATS)
            ext = gen.rand_ext(rng) & ~TRANSCLUDE
            hdr = bytes([rng.choice([0, 0, 0, 4, 5, 6, 7]), fmt, ext & 255, (ext >> 8) & 255, (ext >> 16) & 1, rng.randrange(7)])
            body = data[:3000]
            open(os.path.join(cdir, 'seed-%04d' % n), 'wb').write(hdr + body)
            n += 1
    return n


def run(chk, runs=200000, nproc=None, max_len=4096):
    nproc = nproc or core.NPROC
    exe = build.build('fuzz', ('fuzz_target',))['fuzz_target']
    work = tempfile.mkdtemp(prefix='mmd6-fuzz-', dir=D.SCRATCH_ROOT)
    r = core.JobResult()
    try:
        cdir, adir = os.path.join(work, 'corpus'), os.path.join(work, 'art')
        os.makedirs(cdir), os.makedirs(adir)
        rng = core.job_rng(chk.seed, 'C01', 'fuzz')
        nseed = _seed_corpus(cdir, rng)
        dpath = os.path.join(work, 'dict')
        _dict_file(dpath)
        env = dict(os.environ, ASAN_OPTIONS='detect_leaks=0:abort_on_error=0:quarantine_size_mb=8', UBSAN_OPTIONS='print_stacktrace=1')
        # waves of bounded runs: a fuzzer process stops at its first artifact, and memory the library leaks accumulates
        # inside a long-lived process (leaks are nobody's property here) -- so each process is short and is relaunched
        chunk = min(runs, 100000)
        waves = (runs + chunk - 1) // chunk
        budget = max(600, chunk // 50)          # generous wall-clock watchdog per wave (seconds); firing = inconclusive
        logs = []
        for w in range(waves):
            procs = []
            for k in range(nproc):
                lp = os.path.join(work, 'log-%d-%d' % (w, k))
                logs.append(lp)
                log = open(lp, 'wb')
                cmd = [exe, '-runs=%d' % chunk, '-max_len=%d' % max_len, '-timeout=25', '-rss_limit_mb=3000', '-seed=%d' % (chk.seed * 100000 + w * 100 + k + 1),
                       '-dict=' + dpath, '-artifact_prefix=' + adir + '/w%dk%d-' % (w, k), '-print_final_stats=1', '-max_total_time=%d' % budget, cdir]
                procs.append((subprocess.Popen(cmd, stdout=log, stderr=subprocess.STDOUT, env=env, cwd=work), log))
            t0 = time.time()
            for p, log in procs:
                try:
                    p.wait(timeout=max(10, budget + 120 - (time.time() - t0)))
                except subprocess.TimeoutExpired:
                    p.kill()
                    p.wait()
                    r.inconclusive.append('fuzzer process exceeded its wall-clock watchdog')
                log.close()
        execs, cov = 0, 0
        for lp in logs:
            txt = open(lp, 'rb').read().decode('utf-8', 'replace')
            m = re.search(r'stat::number_of_executed_units:\s*(\d+)', txt)
            if m:
                execs += int(m.group(1))
            else:
                ms = re.findall(r'^#(\d+)\s', txt, re.M)
                execs += int(ms[-1]) if ms else 0
            mc = re.findall(r'cov: (\d+)', txt)
            if mc:
                cov = max(cov, int(mc[-1]))
        r.evaluations += execs
        r.stats['fuzz_executions'] = execs
        r.stats['fuzz_edges_covered'] = cov
        r.stats['fuzz_seed_inputs'] = nseed
        corpus_files = os.listdir(cdir)
        r.stats['fuzz_corpus_size_end'] = len(corpus_files)
        for f in corpus_files:
            r.distinct.add('fz' + f[:14])
        arts = sorted(os.listdir(adir))
        r.stats['fuzz_artifacts'] = len(arts)
        seen = set()
        for a in arts:
            data = open(os.path.join(adir, a), 'rb').read()
            if len(data) < HDR:
                continue
            try:
                cp = subprocess.run([exe, os.path.join(adir, a)], capture_output=True, env=env, timeout=120, cwd=work)
                rep, rc = (cp.stdout + cp.stderr).decode('utf-8', 'replace'), cp.returncode
            except subprocess.TimeoutExpired:
                rep, rc = 'no result within 120 s when re-executed alone', None
            kind = a.split('-')[1] if '-' in a else 'crash'
            if rc is None:
                key = 'hang:fuzz'
            elif rc == 0:
                # e.g. the rss limit reached by accumulation over many inputs, or a slow unit on a loaded machine: not a property of this input
                r.stats['fuzz_artifacts_not_reproduced:' + kind] += 1
                continue
            elif kind == 'oom':
                key = 'oom:fuzz'
            else:
                key = D.sanitizer_key(rep, rc)
            variant, op, fmt, ext, lang, flags, args = decode(data)
            case = dict(requests=[D.req_to_json(variant, op, fmt, ext, lang, flags, args)], fuzz_input_b64=base64.b64encode(data).decode())
            if key not in seen:
                seen.add(key)
                r.violate(key, 'libFuzzer artifact %s (%s): %s' % (a, kind, key), case, rep[-6000:])
        r.samples.append(dict(fuzz=dict(processes=nproc, runs_each=runs, waves=waves, executions=execs, edges=cov, corpus_end=len(corpus_files), artifacts=len(arts))))
    finally:
        shutil.rmtree(work, ignore_errors=True)
    chk.merge(r)
