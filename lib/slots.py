"""Slot documents: hostile payloads placed between two unique sentinel words in every syntactic position.

build(rng, payload_fn, kinds) -> (text, slots) where slots is a list of dicts
{kind, a, b, payload}: the payload of that slot sits between sentinel words a and b in the source, so
whatever a writer produced for it is exactly what lies between a and b in the output.
"""

# kind -> (template, needs_top, one_line_only).  {A} {B} sentinels, {P} payload.
TEMPLATES = {
    'paragraph':      '{A} {P} {B}',
    'paragraph-tight': '{A}{P}{B}',
    'atx-heading':    '## {A} {P} {B}',
    'atx-closed':     '# {A} {P} {B} #',
    'setext-heading': '{A} {P} {B}\n========',
    'bullet-item':    '* {A} {P} {B}\n* other',
    'enum-item':      '1. {A} {P} {B}\n2. other',
    'loose-item':     '- {A} {P} {B}\n\n- other',
    'quote':          '> {A} {P} {B}',
    'table-cell':     '| {A} {P} {B} | x |\n|:---|---:|\n| y | z |',
    'table-head':     '| h | {A} {P} {B} |\n|---|---|\n| y | z |',
    'table-caption':  '| h | i |\n|---|---|\n| y | z |\n[{A} {P} {B}]',
    'definition':     'Term\n:   {A} {P} {B}',
    'term':           '{A} {P} {B}\n:   definition',
    'link-text':      'see [{A} {P} {B}](http://example.com/) here',
    'link-title':     'see [text](http://example.com/ "{A} {P} {B}") here',
    'link-url':       'see [text](http://example.com/{A}{P}{B}) here',
    'ref-link':       'see [{A} {P} {B}][lab{N}] here\n\n[lab{N}]: http://example.com/ "T"',
    'ref-title':      'see [text][lbl{N}] here\n\n[lbl{N}]: http://example.com/ "{A} {P} {B}"',
    'image-alt':      'img ![{A} {P} {B}](pic.png) here',
    'image-title':    'img ![alt](pic.png "{A} {P} {B}") here',
    'figure':         '![{A} {P} {B}](pic.png "title")',
    'link-attr':      'see [text](http://example.com/ "T" class="{A}{P}{B}") here',
    'inline-footnote': 'note[^{A} {P} {B}] here',
    'ref-footnote':   'note[^fn{N}] here\n\n[^fn{N}]: {A} {P} {B}',
    'citation':       'cite[#c{N}] here\n\n[#c{N}]: {A} {P} {B}',
    'glossary':       'term [?g{N}] here\n\n[?g{N}]: {A} {P} {B}',
    'abbreviation':   'The AB{N} here\n\n[>AB{N}]: {A} {P} {B}',
    'code-span':      'code `{A} {P} {B}` here',
    'fenced-code':    '```\n{A} {P} {B}\n```',
    'fenced-lang':    '```{A}{P}{B}\ncode\n```',
    'indented-code':  '    {A} {P} {B}',
    'math-inline':    'math \\\\({A} {P} {B}\\\\) here',
    'math-dollar':    'math ${A} {P} {B}$ here',
    'math-display':   '\\\\[ {A} {P} {B} \\\\]',
    'emphasis':       'em *{A} {P} {B}* here',
    'strong':         'st **{A} {P} {B}** here',
    'superscript':    'x^{A}{P}{B}^ here',
    'subscript':      'x~{A}{P}{B}~ here',
    'critic-add':     'cm {++{A} {P} {B}++} here',
    'critic-del':     'cm {--{A} {P} {B}--} here',
    'critic-sub':     'cm {~~{A} {P}~>{P} {B}~~} here',
    'critic-comment': 'cm {>>{A} {P} {B}<<} here',
    'critic-hi':      'cm {=={A} {P} {B}==} here',
    'autolink':       'auto <http://example.com/{A}{P}{B}> here',
    'email':          'mail <{A}{P}{B}@example.com> here',
    'manual-label':   '### Heading [{A}{P}{B}] ###',
    'html-inline':    'raw <span title="{A} {P} {B}">x</span> here',
    'html-block':     '<div>\n{A} {P} {B}\n</div>',
    'html-comment':   '<!-- {A} {P} {B} -->',
    'raw-filter':     'raw `{A} {P} {B}`{=html} here',
    'two-space-break': '{A} {P}  \n{B} after',
    'line-end':       '{A} {P}\n{B} next',
    'eof-no-newline': '{A} {P} {B}',       # placed last, without the final newline
}
META_TEMPLATES = {
    'meta-title':     'Title: {A} {P} {B}',
    'meta-author':    'Author: {A} {P} {B}',
    'meta-custom':    'Custom Key: {A} {P} {B}',
    'meta-key':       'K{A}{P}{B}: value',
    'meta-css':       'CSS: {A}{P}{B}.css',
    'meta-html-header': 'HTML Header: <meta name="x" content="{A} {P} {B}">',
    'meta-continued': 'Subject: first\n    {A} {P} {B}',
}
# the payload right at the start of the line's content, directly after the block marker (where marker/indent stripping cuts)
LEADING_TEMPLATES = {
    'lead-paragraph':      '{P}{A} x {B}',
    'lead-quote':          '> {P}{A} x {B}',
    'lead-quote-nospace':  '>{P}{A} x {B}',
    'lead-quote-fenced':   '> ```\n> {P}{A} code {B}\n> {P}{P}second\n> ```',
    'lead-quote-fenced-nospace': '> ```\n>{P}{A} code {B}\n>{P}\n> ```',
    'lead-quote-indented': '>     {P}{A} code {B}',
    'lead-bullet':         '* {P}{A} x {B}\n* {P}other',
    'lead-enum':           '1. {P}{A} x {B}',
    'lead-item-continuation': '* item\n\n    {P}{A} x {B}',
    'lead-indented-code':  '    {P}{A} x {B}\n    {P}more',
    'lead-fenced-code':    '```\n{P}{A} x {B}\n```',
    'lead-definition':     'Term\n: {P}{A} x {B}',
    'lead-atx':            '# {P}{A} x {B}',
    'lead-table-cell':     '|{P}{A} x {B}|{P}|\n|---|---|\n|{P}y|z{P}|',
    'lead-footnote-def':   'n[^lf{N}]\n\n[^lf{N}]: {P}{A} x {B}\n    {P}continued',
    'lead-meta-continued': 'Subject: first\n    {P}{A} x {B}',
    'trail-meta-title':    'Title: {A} x {B}{P}',
    'trail-meta-author':   'Author: {A} x {B}{P}',
    'trail-setext':        '{A} x {B}{P}\n=======',
    'trail-atx-open':      '## {A} x {B}{P}',
    'trail-bullet':        '* {A} x {B}{P}\n* other{P}',
    'trail-link-text':     'see [{A} x {B}{P}](http://example.com/) here',
    'trail-caption':       '| h | i |\n|---|---|\n| y | z |\n[{A} x {B}{P}]',
    'trail-definition':    'Term{P}\n: {A} x {B}{P}',
    'trail-link-dest-unbalanced': 'see [t](<http://example.com/{A}x{B}{P} "T") here',
    'trail-link-dest-bare': 'see [t](<{A}{B}{P}) here',
    'trail-link-dest-angle': 'see [t](<http://example.com/{A}{B}{P}>) here',
    'trail-image-dest':    '![i](<pic{A}{B}{P} "t")',
    'trail-ref-dest':      'see [t][rd{N}]\n\n[rd{N}]: <http://example.com/{A}{B}{P}',
    'trail-code-span':     'code `{A} x {B}{P}` here',
    'trail-paragraph':     '{A} x {B}{P}',
    'trail-atx':           '# {A} x {B}{P} #',
    'trail-quote-fenced':  '> ```\n> {A} x {B}{P}\n> ```',
    'trail-table-cell':    '| {A} x {B}{P}| b |\n|---|---|\n| y{P}| z |',
}
_META_LEAD = ('lead-meta-continued', 'trail-meta-title', 'trail-meta-author')
TEMPLATES.update({k: v for k, v in LEADING_TEMPLATES.items() if k not in _META_LEAD})
for _k in _META_LEAD:
    META_TEMPLATES[_k] = LEADING_TEMPLATES[_k]
LEADING_KINDS = sorted(LEADING_TEMPLATES)
ALL_KINDS = sorted(k for k in TEMPLATES if k not in LEADING_TEMPLATES) + sorted(k for k in META_TEMPLATES if k not in LEADING_TEMPLATES)


def build(rng, payload_fn, kinds=None, nslots=None, eol='\n'):
    kinds = list(kinds or ALL_KINDS)
    n = nslots or rng.randint(3, 10)
    chosen = [rng.choice(kinds) for _ in range(n)]
    meta = [k for k in chosen if k in META_TEMPLATES]
    body = [k for k in chosen if k in TEMPLATES and k != 'eof-no-newline']
    tail = [k for k in chosen if k == 'eof-no-newline'][:1]
    seen = set()
    meta = [k for k in meta if not (k in seen or seen.add(k))]
    slots, blocks, mlines = [], [], []
    counter = [0]

    def fill(kind, tpl):
        counter[0] += 1
        a, b = 's%da' % counter[0], 's%db' % counter[0]
        p = payload_fn(rng, kind)
        slots.append(dict(kind=kind, a=a, b=b, payload=p))
        return tpl.replace('{A}', a).replace('{B}', b).replace('{P}', p).replace('{N}', str(counter[0]))
    for k in meta:
        mlines.append(fill(k, META_TEMPLATES[k]))
    for k in body:
        blocks.append(fill(k, TEMPLATES[k]))
    text = ''
    if mlines:
        text += '\n'.join(mlines) + '\n\n'
    text += '\n\n'.join(blocks)
    if tail:
        text += ('\n\n' if blocks else '') + fill('eof-no-newline', TEMPLATES['eof-no-newline'])
    else:
        text += '\n'
    if eol != '\n':
        text = text.replace('\n', eol)
    return text, slots
