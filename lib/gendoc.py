"""Abstract documents (AST) + serialiser with explicit spelling choices + random generation.

The AST is deliberately small and only produces *unambiguous* uses of the documented syntax, so
that (a) every spelling of one AST is equivalent by the syntax guide, (b) an independent renderer
(lib/oracle_html.py) can say what the HTML must be.  random_document() adds looser material for
checks that only need structural variety.
"""
import random

# ------------------------------------------------------------------ AST


class N:
    """Generic node: kind + fields."""
    def __init__(self, kind, **kw):
        self.kind = kind
        self.__dict__.update(kw)

    def __repr__(self):
        return '%s(%s)' % (self.kind, ', '.join('%s=%r' % (k, v) for k, v in self.__dict__.items() if k != 'kind'))


def Text(s): return N('text', s=s)
def Emph(ch): return N('emph', ch=ch)
def Strong(ch): return N('strong', ch=ch)
def Code(s): return N('code', s=s)
def Link(ch, url, title=None): return N('link', ch=ch, url=url, title=title)
def Image(alt, url, title=None): return N('image', alt=alt, url=url, title=title)
def Break(): return N('break')
def Soft(): return N('soft')          # a line break inside a paragraph (the paragraph is wrapped in the source)
def Esc(c): return N('esc', c=c)
def Entity(name): return N('entity', name=name)
def AutoLink(url): return N('autolink', url=url)
def Math(s): return N('math', s=s)
def Sup(s): return N('sup', s=s)
def Sub(s): return N('sub', s=s)
def FootRef(ident): return N('footref', ident=ident)
def Smart(form, ch=None): return N('smart', form=form, ch=ch or [])    # form: dq sq endash emdash ellipsis apos

def Para(ch): return N('para', ch=ch)
def Heading(level, ch, label=None): return N('heading', level=level, ch=ch, label=label)
def Rule(): return N('rule')
def CodeBlock(lines, lang=None, fenced=True): return N('codeblock', lines=lines, lang=lang, fenced=fenced)
def Quote(blocks): return N('quote', blocks=blocks)
def List(ordered, tight, items): return N('list', ordered=ordered, tight=tight, items=items)
def Table(header, aligns, rows, caption=None): return N('table', header=header, aligns=aligns, rows=rows, caption=caption)
def Figure(alt, url, title=None): return N('figure', alt=alt, url=url, title=title)
def CellSpan(ch, n): return N('cellspan', ch=ch, n=n)        # a table cell spanning n columns ("| a || b |")
def DefList(entries): return N('deflist', entries=entries)       # entries: list of (term inlines, [def inlines...])
def Doc(blocks, footnotes=None, meta=None): return N('doc', blocks=blocks, footnotes=footnotes or {}, meta=meta or [])


# ------------------------------------------------------------------ spelling

class Spelling:
    """Concrete choices the syntax guide declares equivalent."""
    def __init__(self, rng=None, **kw):
        r = rng or random.Random(0)
        self.bullet = r.choice('*+-')
        self.lead = r.choice([0, 0, 1, 2, 3])          # leading spaces on block openers
        self.closing = r.choice([0, 0, 1, 2, 5])       # trailing #s on ATX headings: 0 none, 1 same count, n fixed count
        self.setext = r.random() < 0.4                  # use Setext for levels 1/2 when the title allows it
        self.eol = r.choice(['\n', '\n', '\r\n', '\r'])
        self.first_num = r.choice([1, 1, 3, 7])
        self.rule = r.choice(['***', '---', '* * *', '- - -', '___', '*****'])
        self.fence = r.choice([3, 4, 5])
        self.title_q = r.choice(['"', "'", '('])
        self.link_style = r.choice(['inline', 'inline', 'ref', 'implicit'])
        self.emph = r.choice('*_')
        self.trailing_blank = r.choice([1, 2])
        self.math = r.choice(['paren', 'paren', 'dollar'])      # \\( x \\) or $x$
        self.quote_lazy = False
        self.__dict__.update(kw)


DEFAULT = Spelling(random.Random(1), bullet='*', lead=0, closing=0, setext=False, eol='\n', first_num=1, rule='***', fence=3,
                   title_q='"', link_style='inline', emph='*', trailing_blank=1, math='paren')


def _title(sp, t):
    if sp.title_q == '(':
        return '(%s)' % t
    return sp.title_q + t + sp.title_q


class Serializer:
    def __init__(self, sp):
        self.sp = sp
        self.refs = []      # reference link definitions collected
        self.nref = 0

    # ---- inlines
    def inl(self, nodes):
        return ''.join(self.i1(n) for n in nodes)

    def i1(self, n):
        sp = self.sp
        k = n.kind
        if k == 'text':
            return n.s
        if k == 'emph':
            return sp.emph + self.inl(n.ch) + sp.emph
        if k == 'strong':
            return sp.emph * 2 + self.inl(n.ch) + sp.emph * 2
        if k == 'code':
            return '`' + n.s + '`'
        if k == 'link':
            txt = self.inl(n.ch)
            if sp.link_style == 'inline' or (sp.link_style == 'implicit' and not _simple_label(txt)):
                return '[%s](%s%s)' % (txt, n.url, (' ' + _title(sp, n.title)) if n.title else '')
            if sp.link_style == 'implicit':
                self.refs.append('[%s]: %s%s' % (txt, n.url, (' ' + _title(sp, n.title)) if n.title else ''))
                return '[%s][]' % txt
            self.nref += 1
            lab = 'ref%d' % self.nref
            self.refs.append('[%s]: %s%s' % (lab, n.url, (' ' + _title(sp, n.title)) if n.title else ''))
            return '[%s][%s]' % (txt, lab)
        if k == 'image':
            if False and sp.link_style == 'ref':         # a reference image also gets an id attribute: not an equivalent spelling
                self.nref += 1
                lab = 'img%d' % self.nref
                self.refs.append('[%s]: %s%s' % (lab, n.url, (' ' + _title(sp, n.title)) if n.title else ''))
                return '![%s][%s]' % (n.alt, lab)
            return '![%s](%s%s)' % (n.alt, n.url, (' ' + _title(sp, n.title)) if n.title else '')
        if k == 'break':
            return '  \n'
        if k == 'soft':
            return '\n'
        if k == 'esc':
            return '\\' + n.c
        if k == 'entity':
            return '&%s;' % n.name
        if k == 'autolink':
            return '<%s>' % n.url
        if k == 'math':
            if sp.math == 'dollar':
                return '$' + n.s + '$'
            return '\\\\(' + n.s + '\\\\)'
        if k == 'sup':
            return '^' + n.s + '^'
        if k == 'sub':
            return '~' + n.s + '~'
        if k == 'footref':
            return '[^%s]' % n.ident
        if k == 'smart':
            return {'dq': '"%s"', 'sq': "'%s'", 'endash': '--%s', 'emdash': '---%s', 'ellipsis': '...%s', 'apos': "'s%s"}[n.form] % self.inl(n.ch)
        raise ValueError(k)

    # ---- blocks: each returns a list of lines (no EOLs)
    def block(self, b, top=True):
        sp = self.sp
        lead = ' ' * sp.lead if top else ''
        k = b.kind
        if k == 'para':
            return self.inl(b.ch).split('\n')
        if k == 'heading':
            # '_' is a label character: emphasis inside a heading is always spelled with '*' so that the id does not depend on the spelling
            keep, sp.emph = sp.emph, '*'
            t = self.inl(b.ch)
            sp.emph = keep
            lab = (' [%s]' % b.label) if b.label else ''
            if sp.setext and b.level <= 2 and not lab and '\n' not in t:
                return [t, ('=' if b.level == 1 else '-') * max(3, len(t))]
            close = ''
            if sp.closing == 1:
                close = ' ' + '#' * b.level
            elif sp.closing > 1:
                close = ' ' + '#' * sp.closing
            return ['#' * b.level + ' ' + t + lab + close]
        if k == 'rule':
            return [lead + sp.rule]
        if k == 'figure':
            return ['![%s](%s%s)' % (b.alt, b.url, (' ' + _title(sp, b.title)) if b.title else '')]
        if k == 'codeblock':
            if b.fenced:
                f = '`' * sp.fence
                return [f + (b.lang or '')] + list(b.lines) + [f]
            return ['    ' + l for l in b.lines]
        if k == 'quote':
            inner = self.blocks(b.blocks, top=False)
            return [('> ' + l) if l else '>' for l in inner]
        if k == 'list':
            out = []
            simple = b.tight and all(len(it) == 1 for it in b.items)
            if not simple:
                lead = ''           # markers may be indented by up to three spaces; kept to lists of one-paragraph items
            for idx, item in enumerate(b.items):
                marker = ('%d.' % (sp.first_num + idx)) if b.ordered else sp.bullet
                inner = self.blocks(item, top=False, tight=b.tight and len(b.items) > 1)
                pad = ' ' * (len(marker) + 1)
                first = True
                for l in inner:
                    if first:
                        out.append(lead + marker + ' ' + l)
                        first = False
                    else:
                        out.append((('    ' if len(pad) < 4 else pad) + l) if l else '')
                if not b.tight and idx != len(b.items) - 1:
                    out.append('')
            return out
        if k == 'table':
            def row(cells):
                out = '|'
                for c in cells:
                    if isinstance(c, N) and c.kind == 'cellspan':
                        out += ' ' + self.inl(c.ch) + ' |' + '|' * (c.n - 1)
                    else:
                        out += ' ' + self.inl(c) + ' |'
                return out
            sep = '|' + '|'.join({'l': ':---', 'r': '---:', 'c': ':---:', 'n': '----'}[a] for a in b.aligns) + '|'
            out = [row(b.header), sep] + [row(r) for r in b.rows]
            if b.caption:
                out.append('[%s]' % b.caption)
            return out
        if k == 'deflist':
            out = []
            for i, (term, defs) in enumerate(b.entries):
                if i:
                    out.append('')
                out.append(self.inl(term))
                for d in defs:
                    out.append(':   ' + self.inl(d))
            return out
        raise ValueError(k)

    def blocks(self, bs, top=True, tight=False):
        out = []
        for i, b in enumerate(bs):
            if i and not tight:
                out.append('')
            out += self.block(b, top)
        return out

    def doc(self, d):
        lines = []
        if d.meta:
            for k, v in d.meta:
                lines.append('%s: %s' % (k, v))
            lines.append('')
        lines += self.blocks(d.blocks)
        if self.refs:
            lines.append('')
            lines += self.refs
        for ident, inl in d.footnotes.items():
            lines.append('')
            lines.append('[^%s]: %s' % (ident, self.inl(inl)))
        lines += [''] * self.sp.trailing_blank
        return self.sp.eol.join(lines)


def _simple_label(t):
    return t and all(c.isalnum() or c == ' ' for c in t)


def serialize(doc, sp=None):
    return Serializer(sp or DEFAULT).doc(doc)


# ------------------------------------------------------------------ random ASTs

WORDS = ['alpha', 'beta', 'gamma', 'delta', 'lorem', 'ipsum', 'dolor', 'sit', 'amet', 'quux', 'zed', 'foo', 'bar', 'baz', 'kilo', 'nine']


class Gen:
    """Random AST generator.  Every text word gets a unique sentinel id (w<n>) when sentinels=True."""

    def __init__(self, rng, sentinels=True, features=None):
        self.r = rng
        self.n = 0
        self.sent = sentinels
        self.foot = {}
        self.heads = set()
        self.prefix = 'w'
        self.f = features or set(['emph', 'strong', 'code', 'link', 'image', 'esc', 'entity', 'break', 'quote', 'list', 'codeblock', 'rule',
                                  'heading', 'table', 'deflist', 'footnote', 'math', 'supsub', 'autolink', 'nested-footnote', 'softbreak', 'deep-items'])

    def word(self, prefix=None):
        """prefix: w body text, u attribute-like text (urls, titles, alt, captions), f note text, h heading text, c verbatim"""
        self.n += 1
        return ('%s%d' % (prefix or self.prefix, self.n)) if self.sent else self.r.choice(WORDS)

    def words(self, lo=1, hi=5, prefix=None):
        return ' '.join(self.word(prefix) for _ in range(self.r.randint(lo, hi)))

    def inlines(self, depth=0, maxn=4, allow=None):
        r = self.r
        allow = self.f if allow is None else allow
        out = [Text(self.words())]
        for _ in range(r.randint(0, maxn)):
            k = r.random()
            node = None
            if k < 0.15 and 'emph' in allow and depth < 2:
                node = Emph([Text(self.words(1, 3))])
            elif k < 0.28 and 'strong' in allow and depth < 2:
                node = Strong([Text(self.words(1, 3))])
            elif k < 0.38 and 'code' in allow:
                node = Code(self.words(1, 2, 'c') + r.choice(['', ' <b>', ' & x', ' *y*', ' a_b']))
            elif k < 0.5 and 'link' in allow and depth == 0:
                node = Link([Text(self.words(1, 2))], 'http://example.com/%s' % self.word('u'), r.choice([None, None, 'Title ' + self.word('u')]))
            elif k < 0.56 and 'image' in allow and depth == 0:
                node = Image(self.words(1, 2, 'u'), '%s.png' % self.word('u'), r.choice([None, 'T ' + self.word('u')]))
            elif k < 0.62 and 'esc' in allow:
                node = Esc(r.choice('\\`*_{}[]()#+-.!>'))
            elif k < 0.66 and 'entity' in allow:
                node = Entity(r.choice(['amp', 'lt', 'gt', 'copy', '#169', '#xA9', 'quot']))
            elif k < 0.70 and 'footnote' in allow and depth == 0:
                ident = 'fn%d' % (len(self.foot) + 1)
                self.foot[ident] = [Text(self.words(2, 5, 'f'))]
                if 'nested-footnote' in allow and r.random() < 0.25:
                    # a note that is only ever called from inside another note
                    inner = 'fn%d' % (len(self.foot) + 1)
                    self.foot[inner] = [Text(self.words(2, 4, 'f'))]
                    self.foot[ident] += [Text(' '), FootRef(inner), Text(' ' + self.word('f'))]
                node = FootRef(ident)
            elif k < 0.74 and 'math' in allow:
                node = Math(r.choice(['x^2', 'a_b + c', '\\frac{1}{2}', 'e = mc^2', 'a < b']))
            elif k < 0.78 and 'supsub' in allow:
                node = r.choice([Sup, Sub])(self.word())
            elif k < 0.81 and 'autolink' in allow:
                node = AutoLink('http://example.org/%s' % self.word('u'))
            elif k < 0.90 and k >= 0.84 and 'smart' in allow:
                form = r.choice(['dq', 'sq', 'endash', 'emdash', 'ellipsis', 'apos'])
                if form in ('dq', 'sq'):
                    node = Smart(form, [Text(self.words(1, 3))])
                elif form == 'apos':
                    out.append(Smart(form))
                    out.append(Text(' ' + self.words(1, 2)))
                    continue
                else:
                    if form == 'ellipsis':
                        out.append(Smart(form))
                        out.append(Text(' ' + self.words(1, 2)))
                    else:
                        out.append(Text(' '))
                        out.append(Smart(form))
                        out.append(Text(' ' + self.words(1, 2)))
                    continue
            elif k < 0.84 and 'break' in allow and depth == 0:
                out.append(Break())
                out.append(Text(self.words()))
                continue
            elif k >= 0.90 and k < 0.94 and 'softbreak' in allow and depth == 0:
                out.append(Soft())
                out.append(Text(self.words()))
                continue
            if node is not None:
                if 'adjacent' in allow and node.kind in ('emph', 'strong', 'code', 'link', 'math', 'image') and r.random() < 0.3:
                    # punctuation directly before and after the construct instead of spaces
                    o, c = r.choice([('(', ')'), ('(', '),'), ('(', ').'), ('/', '/'), ('(', ');')])
                    out.append(Text(' ' + o))
                    out.append(node)
                    out.append(Text(c + ' ' + self.words(1, 3)))
                    continue
                out.append(Text(' '))
                out.append(node)
                out.append(Text(' ' + self.words(1, 3)))
        return out

    def heading(self):
        t = [Text(self.words(1, 3, 'h'))]
        if 'heading-inlines' in self.f and self.r.random() < 0.5:
            k = self.r.choice(['emph', 'strong', 'code'])
            node = Emph([Text(self.word('h'))]) if k == 'emph' else Strong([Text(self.word('h'))]) if k == 'strong' else Code(self.word('h') + self.r.choice(['', ' <b', ' & x']))
            t += [Text(' '), node] + ([Text(' ' + self.word('h'))] if self.r.random() < 0.5 else [])
        return Heading(self.r.randint(1, 6), t)

    def block(self, depth=0):
        r = self.r
        k = r.random()
        f = self.f
        if k < 0.30 or depth > 2:
            return Para(self.inlines())
        if k < 0.40 and 'heading' in f and depth == 0:
            return self.heading()
        if k < 0.46 and 'rule' in f:
            return Rule()
        if k < 0.49 and 'figure' in f and depth == 0:
            return Figure(self.words(1, 3, 'u'), '%s.png' % self.word('u'), r.choice([None, 'T ' + self.word('u')]))
        if k < 0.56 and 'codeblock' in f:
            fenced = r.random() < 0.6 or (depth > 0 and not ('nested-indented' in f and r.random() < 0.5))
            if 'indented-only' in f:         # plain Markdown has no fences
                if depth > 0:
                    return Para(self.inlines())
                fenced = False
            # an indented block right after a list is a continuation paragraph there: keep raw-looking tags inside fences only
            pool = ['code %s();' % self.word('c'), 'x = a & b;', '*not emph* %s' % self.word('c'), '# not heading'] + (['  <tag attr="%s">' % self.word('c')] if fenced else []) + \
                   ([' one = %s;' % self.word('c'), '   three(%s)' % self.word('c')] if 'nested-indented' in f else [])
            lines = [r.choice(pool) for _ in range(r.randint(1, 3))]
            return CodeBlock(lines, r.choice([None, None, 'c', 'python']) if fenced else None, fenced)
        if k < 0.66 and 'quote' in f:
            return Quote([self.block(depth + 1) for _ in range(r.randint(1, 2))])
        if k < 0.82 and 'list' in f:
            tight = r.random() < 0.5
            items = []
            for _ in range(r.randint(1, 4)):
                if tight:
                    it = [Para(self.inlines(maxn=2))]
                    q = r.random()
                    if q < 0.25 and depth < 2:
                        it.append(List(r.random() < 0.5, True, [[Para(self.inlines(maxn=1))] for _ in range(r.randint(1, 2))]))
                    elif q < 0.33 and depth < 2 and 'tight-children' in f:
                        it.append(Quote([Para(self.inlines(maxn=1))]))
                    elif q < 0.40 and depth < 2 and 'tight-children' in f and 'indented-only' not in f:
                        it.append(CodeBlock(['code %s();' % self.word('c')], None, True))
                else:
                    it = [Para(self.inlines(maxn=2))] + ([self.block(depth + 1)] if r.random() < 0.4 else [])
                    if 'deep-items' in f and r.random() < 0.3:
                        it += [Para(self.inlines(maxn=2)) for _ in range(r.randint(1, 2))]
                items.append(it)
            if len(items) == 1:
                # a one-item list has no blank line *between items*; it is wrapped in <p> exactly when the item holds several paragraphs
                tight = not any(x.kind == 'para' for x in items[0][1:])
            return List(r.random() < 0.4, tight, items)
        if k < 0.90 and 'table' in f and depth == 0:
            nc = r.randint(1, 4)
            rows = [[self.inlines(1, 1, {'emph', 'strong', 'code'}) for _ in range(nc)] for _ in range(r.randint(1, 3))]
            if 'colspan' in f and nc >= 2:
                for row in rows:
                    if r.random() < 0.4:
                        n = r.randint(2, nc)
                        at = r.randint(0, nc - n)
                        row[at:at + n] = [CellSpan(row[at], n)]
            return Table([self.inlines(1, 1, {'emph', 'code'}) for _ in range(nc)], [r.choice('lrcn') for _ in range(nc)], rows,
                         r.choice([None, None, 'Caption ' + self.word('u')]))
        if k < 0.95 and 'deflist' in f and depth == 0:
            return DefList([([Text(self.words(1, 2))], [self.inlines(1, 1) for _ in range(r.randint(1, 2))]) for _ in range(r.randint(1, 2))])
        return Para(self.inlines())

    def sanitize(self, blocks):
        """keep neighbours from reading as one construct (rules of the syntax guide): an indented block after a list, quote,
        definition list or another indented block is its continuation; adjacent lists / quotes / tables / definition lists merge"""
        out = []
        for b in blocks:
            prev = out[-1] if out else None
            if b.kind == 'codeblock' and not b.fenced and prev is not None and prev.kind in ('list', 'quote', 'deflist', 'codeblock', 'table'):
                if 'indented-only' in self.f:
                    out.append(Rule())
                else:
                    b = CodeBlock([l for l in b.lines], None, True)
            if prev is not None and prev.kind == b.kind and b.kind in ('list', 'quote', 'table', 'deflist'):
                out.append(Rule())
            if prev is not None and prev.kind == 'table' and b.kind == 'para':
                out.append(Rule())          # a bracketed first word would read as a caption
            if b.kind == 'quote':
                b = Quote(self.sanitize(b.blocks))
            if b.kind == 'list':
                b = List(b.ordered, b.tight, [self.sanitize(it) for it in b.items])
            out.append(b)
        return out

    def doc(self, nblocks=None, meta=False):
        n = nblocks or self.r.randint(1, 8)
        blocks = self.sanitize([self.block() for _ in range(n)])
        m = []
        if meta:
            m = [('Title', 'T ' + self.word('u'))] + ([('Author', 'A ' + self.word('u'))] if self.r.random() < 0.5 else [])
        return Doc(blocks, dict(self.foot), m)


def random_document(rng, sentinels=False):
    """Serialised random document with a random spelling (structure variety; no oracle attached)."""
    g = Gen(rng, sentinels=sentinels)
    d = g.doc(meta=rng.random() < 0.3)
    return serialize(d, Spelling(rng))
