"""Check runner: parallel jobs, three-valued verdicts, known findings, replays, evidence."""
import os, sys, json, time, hashlib, random, base64, traceback, collections, multiprocessing
from . import drv as D

VERIF = os.path.dirname(os.path.dirname(os.path.abspath(__file__)))
# evidence/ and replays/ go here; VERIF_OUT_DIR redirects them (mutant and soak runs must not overwrite the committed evidence)
OUT = os.environ.get('VERIF_OUT_DIR') or VERIF
KNOWN_FILE = os.path.join(VERIF, 'known_findings.json')
NPROC = int(os.environ.get('VERIF_JOBS', '16'))


def h64(*parts):
    h = hashlib.blake2b(digest_size=8)
    for p in parts:
        if isinstance(p, str):
            p = p.encode('utf-8', 'surrogatepass')
        elif not isinstance(p, (bytes, bytearray)):
            p = repr(p).encode()
        h.update(p)
        h.update(b'\0')
    return h.hexdigest()


def b64(b):
    if isinstance(b, str):
        b = b.encode('utf-8', 'surrogatepass')
    return base64.b64encode(b).decode()


def show(b, n=300):
    """Readable rendering of bytes for evidence samples / messages."""
    if isinstance(b, str):
        b = b.encode('utf-8', 'surrogatepass')
    s = b[:n].decode('utf-8', 'backslashreplace')
    return s + ('...(+%d bytes)' % (len(b) - n) if len(b) > n else '')


class Violation:
    def __init__(self, key, what, case=None, detail=None):
        self.key = key            # stable signature naming the failing site / class
        self.what = what          # one line for humans
        self.case = case or {}    # json-able: how to re-run
        self.detail = detail      # long text (sanitizer report, diff)

    def to_json(self):
        return dict(key=self.key, what=self.what, case=self.case, detail=self.detail)


class JobResult:
    """What a worker hands back.  All fields are merged by Runner."""
    def __init__(self):
        self.evaluations = 0
        self.violations = []             # list[Violation]
        self.distinct = set()            # hashes of distinct non-trivial cases
        self.stats = collections.Counter()
        self.sets = collections.defaultdict(set)   # named sets (e.g. token types seen)
        self.samples = []
        self.inconclusive = []           # list[str]
        self.error = None

    def violate(self, key, what, case=None, detail=None):
        # keep at most a few witnesses per key per job
        n = sum(1 for v in self.violations if v.key == key)
        self.stats['violations_seen'] += 1
        self.stats['viol:' + key] += 1
        if n < 2:
            self.violations.append(Violation(key, what, case, detail))


def job_rng(seed, *parts):
    return random.Random(int(h64('rng', seed, *parts), 16))


def _run_job(args):
    fn, job = args
    try:
        r = fn(job)
        return r
    except Exception:
        r = JobResult()
        r.error = traceback.format_exc()
        return r


class Known:
    def __init__(self, prop):
        self.prop = prop
        self.entries = []
        if os.path.exists(KNOWN_FILE):
            allk = json.load(open(KNOWN_FILE))
            self.entries = [e for e in allk.get('findings', []) if e.get('property') == prop]

    def status(self, key):
        for e in self.entries:
            if e['key'] == key and e.get('status') == 'known':
                return e
        return None

    def witnesses(self, status=None):
        return [e for e in self.entries if e.get('witness') and (status is None or e.get('status') == status)]


class Check:
    """One run of one property's check."""

    def __init__(self, prop, level='exploration'):
        self.prop = prop
        self.level = level
        self.tier = os.environ.get('VERIF_TIER', 'quick')
        self.seed = int(os.environ.get('VERIF_SEED', '0') or 0)
        self.t0 = time.time()
        self.known = Known(prop)
        self.total = JobResult()
        self.errors = []
        self.coverage_extra = {}
        self.assumptions = []
        self.rule = ''
        self.min_distinct = 2
        # replay files are rewritten by every run
        import shutil
        if not os.environ.get('VERIF_KEEP_REPLAYS'):
            shutil.rmtree(os.path.join(OUT, 'replays', prop), ignore_errors=True)

    @property
    def thorough(self):
        return self.tier == 'thorough'

    def scale(self, quick, thorough):
        f = float(os.environ.get('VERIF_SCALE', '1') or 1)
        return max(1, int((thorough if self.thorough else quick) * f))

    # ---- execution
    def run_jobs(self, fn, jobs, nproc=None):
        """fn(job) -> JobResult, executed in a process pool; results merged into self.total."""
        nproc = nproc or NPROC
        jobs = list(jobs)
        if not jobs:
            return
        if nproc == 1 or len(jobs) == 1:
            results = map(_run_job, [(fn, j) for j in jobs])
            for r in results:
                self.merge(r)
            return
        ctx = multiprocessing.get_context('fork')
        with ctx.Pool(min(nproc, len(jobs))) as pool:
            for r in pool.imap_unordered(_run_job, [(fn, j) for j in jobs]):
                self.merge(r)

    def merge(self, r):
        t = self.total
        if r.error:
            self.errors.append(r.error)
        t.evaluations += r.evaluations
        t.violations.extend(r.violations)
        t.distinct |= r.distinct
        t.stats.update(r.stats)
        for k, v in r.sets.items():
            t.sets[k] |= v
        if len(t.samples) < 12:
            t.samples.extend(r.samples[:max(1, 12 - len(t.samples))])
        t.inconclusive.extend(r.inconclusive)

    # ---- verdict
    def finish(self):
        """Print verdict lines, write evidence + replays, return exit code."""
        t = self.total
        wall = time.time() - self.t0
        by_key = collections.OrderedDict()
        for v in t.violations:
            by_key.setdefault(v.key, []).append(v)
        new, known_seen = [], []
        rdir = os.path.join(OUT, 'replays', self.prop)
        for key, vs in by_key.items():
            e = self.known.status(key)
            if e:
                known_seen.append((key, e, vs))
                print('KNOWN-FINDING: property=%s %s [key=%s; seen %d times in this run]' %
                      (self.prop, e.get('what_fails', vs[0].what), key, t.stats['viol:' + key] or len(vs)))
            else:
                os.makedirs(rdir, exist_ok=True)
                path = os.path.join(rdir, '%s-%s.json' % (_safe(key), h64(json.dumps(vs[0].case, sort_keys=True))[:8]))
                with open(path, 'w') as f:
                    json.dump(dict(property=self.prop, seed=self.seed, tier=self.tier, **vs[0].to_json()), f, indent=1)
                new.append((key, vs, path))
        for key, vs, path in new:
            print('VIOLATION property=%s replay=%s' % (self.prop, path))
            print('  key=%s  %s' % (key, vs[0].what))
        code = 1 if new else 0
        ninc = len(t.inconclusive)
        for i, inc in enumerate(t.inconclusive[:20]):
            if isinstance(inc, dict) and inc.get('case'):
                os.makedirs(rdir, exist_ok=True)
                p = os.path.join(rdir, 'inconclusive-%s.json' % h64(json.dumps(inc['case'], sort_keys=True))[:8])
                with open(p, 'w') as f:
                    json.dump(dict(property=self.prop, seed=self.seed, key='inconclusive', what=inc['what'], case=inc['case']), f, indent=1)
                t.inconclusive[i] = '%s (case: %s)' % (inc['what'], p)
        t.inconclusive = [x if isinstance(x, str) else x.get('what') for x in t.inconclusive]
        harness_bad = []
        if self.errors:
            harness_bad.append('%d job(s) raised: %s' % (len(self.errors), self.errors[0][-1500:]))
        if t.evaluations == 0:
            harness_bad.append('no evaluations')
        if ninc > max(3, t.evaluations // 1000):
            harness_bad.append('%d inconclusive cases' % ninc)
        if len(t.distinct) < self.min_distinct:
            harness_bad.append('monitors observed too little: distinct_nontrivial=%d' % len(t.distinct))
        cov = dict(evaluations=t.evaluations, distinct_nontrivial=len(t.distinct), rule=self.rule,
                   samples=t.samples[:12] or ['(none)'],
                   observed={k: v for k, v in sorted(t.stats.items()) if not k.startswith('viol:')},
                   observed_sets={k: sorted(v)[:400] for k, v in t.sets.items()},
                   observed_set_sizes={k: len(v) for k, v in t.sets.items()},
                   inconclusive=t.inconclusive[:50], inconclusive_count=ninc,
                   known_findings_observed=[dict(key=k, what=e.get('what_fails'), times=t.stats['viol:' + k]) for k, e, vs in known_seen],
                   new_violation_keys=[k for k, _, _ in new])
        cov.update(self.coverage_extra)
        ev = dict(property_id=self.prop, tier=self.tier, seed=self.seed, level=self.level, coverage=cov,
                  assumptions=self.assumptions, wall_s=round(wall, 2), violations=len(new))
        os.makedirs(os.path.join(OUT, 'evidence'), exist_ok=True)
        tmp = os.path.join(OUT, 'evidence', '%s.json.tmp%d' % (self.prop, os.getpid()))
        with open(tmp, 'w') as f:
            json.dump(ev, f, indent=1, sort_keys=True, default=_jsondefault)
            f.write('\n')
        os.replace(tmp, os.path.join(OUT, 'evidence', '%s.json' % self.prop))
        print('%s %s seed=%d: %d evaluations, %d distinct non-trivial, %d new violation key(s), %d known finding(s), '
              '%d inconclusive, %.1fs' % (self.prop, self.tier, self.seed, t.evaluations, len(t.distinct), len(new),
                                          len(known_seen), ninc, wall))
        if harness_bad and code == 0:
            print('HARNESS-FAILURE property=%s: %s' % (self.prop, '; '.join(harness_bad)))
            return 2
        return code


def _safe(s):
    return ''.join(c if c.isalnum() or c in '-_.@' else '_' for c in s)[:80]


def _jsondefault(o):
    if isinstance(o, (bytes, bytearray)):
        return show(o)
    if isinstance(o, set):
        return sorted(o)
    return repr(o)


# ------------------------------------------------------------------ helpers for driver-based workers

class Session:
    """A worker-side wrapper: owns drivers per variant, turns crashes/hangs into verdicts."""

    def __init__(self, result, timeout=20.0):
        self.r = result
        self.drivers = {}
        self.timeout = timeout

    def driver(self, variant):
        d = self.drivers.get(variant)
        if d is None:
            d = self.drivers[variant] = D.Driver(variant, timeout=self.timeout)
        return d

    def close(self):
        for d in self.drivers.values():
            d.close()

    def __enter__(self):
        return self

    def __exit__(self, *a):
        self.close()

    def call(self, variant, op, fmt=0, ext=0, lang=0, flags=0, args=(), what='', history=None, crash_is_violation=True,
             hang_is_violation=False, exit_is_violation=False, key_suffix=''):
        """Returns Reply, or None if the worker crashed/hung (recorded as violation or inconclusive).
        history: list of earlier request-json dicts needed to reproduce (for stateful sequences)."""
        d = self.driver(variant)
        case = dict(requests=(history or []) + [D.req_to_json(variant, op, fmt, ext, lang, flags, args)])
        try:
            rep = d.call(op, fmt, ext, lang, flags, args)
        except D.Crash as c:
            if crash_is_violation:
                self.r.violate(c.key + key_suffix, 'worker died (%s) %s' % (c.key, what), case, c.report)
            else:
                self.r.inconclusive.append('crash %s %s' % (c.key, what))
            return None
        except D.Hang:
            # the worker of this variant is gone, and with it whatever state earlier requests of a history built up in it
            self.state_lost = getattr(self, 'state_lost', set()) | {variant}
            # re-run alone with a ten times larger limit before concluding anything
            d2 = None
            try:
                d2 = D.Driver(variant, timeout=self.timeout * 10)
                for rq in (history or []):
                    d2.call(*D.req_from_json(rq))
                rep = d2.call(op, fmt, ext, lang, flags, args, keep_on_hang=True)
                d2.close()
                return rep
            except D.Hang:
                fns = d2.sample_stack() if d2 else []
                d2.close()
                # signature: where it spins (innermost distinct library functions, sampled with gdb)
                key = 'hang:%s@%s' % (D.FMT_NAME.get(fmt, fmt) if op in ('CONVERT', D.OP['CONVERT']) else 'op%s' % op, '+'.join(fns[:4]) or '?')
                if hang_is_violation:
                    self.r.violate(key, 'no reply within %ss, reproduced alone %s' % (self.timeout * 10, what), case, 'stack: ' + ' < '.join(fns))
                else:
                    self.r.inconclusive.append(dict(what='%s %s' % (key, what), case=case))
                return None
            except D.Crash as c:
                if crash_is_violation:
                    self.r.violate(c.key, 'worker died (%s) %s' % (c.key, what), case, c.report)
                return None
        if rep.status == D.ST_EXIT:
            self.r.stats['library-called-exit'] += 1
        if rep.status == D.ST_EXIT and exit_is_violation:
            self.r.violate('exit-called@op%s' % op, 'library called exit(): %s %s' % (rep.diag, what), case, rep.stderr.decode(errors='replace'))
        elif rep.status == D.ST_PROBE:
            self.r.violate('probe:' + rep.diag.split(';')[0], 'returned object probe failed: %s %s' % (rep.diag, what), case)
        elif rep.status == D.ST_BAD:
            if variant in getattr(self, 'state_lost', set()):
                # a request of a stateful history reached a fresh worker because an earlier, slow request was re-run elsewhere: the history cannot be continued
                self.r.inconclusive.append('history abandoned: worker state lost after a request that exceeded the time limit %s' % what)
                return None
            raise RuntimeError('bad request op=%s' % op)
        return rep


def replay_requests(case):
    """Generic replay of a violation's request list; prints what happened."""
    ds = {}
    try:
        for rq in case.get('requests', []):
            v = rq['variant']
            d = ds.get(v) or ds.setdefault(v, D.Driver(v, timeout=200))
            try:
                rep = d.call(*D.req_from_json(rq))
                print('op=%d fmt=%d ext=%#x -> status=%d events=%s diag=%s' % (rq['op'], rq['fmt'], rq['ext'], rep.status, rep.events, rep.diag))
                for i, f in enumerate(rep.fields):
                    print('  field[%d] (%d bytes): %s' % (i, len(f), show(f, 600)))
                if rep.stderr:
                    print('  fd2: %s' % show(rep.stderr, 600))
            except D.Crash as c:
                print('CRASH key=%s rc=%s\n%s' % (c.key, c.rc, c.report[:6000]))
            except D.Hang as hh:
                print('HANG %s' % hh)
    finally:
        for d in ds.values():
            d.close()


def shrink_bytes(src, still_fails, budget=400):
    """Delta-debug `src` (bytes) while still_fails(candidate) stays true.  Lines first, then bytes.
    Bounded by `budget` oracle calls.  Returns the reduced bytes."""
    calls = [0]

    def test(c):
        if calls[0] >= budget:
            return False
        calls[0] += 1
        try:
            return bool(still_fails(c))
        except Exception:
            return False

    def ddmin(parts, join):
        n = 2
        while len(parts) >= 2 and calls[0] < budget:
            chunk = max(1, len(parts) // n)
            reduced = False
            for i in range(0, len(parts), chunk):
                cand = parts[:i] + parts[i + chunk:]
                if cand and test(join(cand)):
                    parts = cand
                    n = max(n - 1, 2)
                    reduced = True
                    break
            if not reduced:
                if chunk == 1:
                    break
                n = min(len(parts), n * 2)
        return parts

    lines = src.split(b'\n')
    lines = ddmin(lines, lambda p: b'\n'.join(p))
    cur = b'\n'.join(lines)
    if len(cur) <= 400:
        bs = [cur[i:i + 1] for i in range(len(cur))]
        bs = ddmin(bs, lambda p: b''.join(p))
        cur = b''.join(bs)
    return cur
