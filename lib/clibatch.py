"""The command line tool's batch mode (-b f1 f2 ...) against its single-file mode (-o out fi), file by file.

Everything the tool does before handing the text to the library (MMD header/footer, transclusion relative to *each* file's own
directory, CriticMarkup accept/reject pre-pass, metadata) must be the same for the i-th file of a batch as for that file alone.
"""
import os, shutil, subprocess, tempfile
from . import core, drv as D

EXT_OF = {'html': '.html', 'latex': '.tex', 'fodt': '.fodt', 'opml': '.opml', 'mmd': '.mmdtext'}


def _run(cli, args, cwd):
    env = dict(os.environ, ASAN_OPTIONS='detect_leaks=0:abort_on_error=0', UBSAN_OPTIONS='print_stacktrace=1')
    try:
        p = subprocess.run([cli] + args, stdout=subprocess.PIPE, stderr=subprocess.PIPE, cwd=cwd, env=env, timeout=120)
        return p.returncode, p.stdout, p.stderr
    except subprocess.TimeoutExpired:
        return 'timeout', b'', b''


def gen_files(rng, features):
    """2-4 documents in different directories, each directory with its own inc.txt / foot.txt"""
    dirs = rng.sample(['.', 'a', 'b', 'a/deep', 'c d'], rng.randint(2, 4))
    files, extra = [], {}
    for i, d in enumerate(dirs):
        tag = 'F%d' % i
        extra[os.path.join(d, 'inc.txt')] = ('included-%s *text*\n' % tag).encode()
        extra[os.path.join(d, 'foot.txt')] = ('\n\nfooter-%s [link-%s]\n\n[link-%s]: http://example.com/%s\n' % (tag, tag, tag, tag)).encode()
        meta, body = [], ['# Head %s #' % tag, 'Para %s with "quotes" -- and text.' % tag]
        if 'title' in features or rng.random() < 0.5:
            meta.append('Title: Doc %s' % tag)
        if 'footer' in features and rng.random() < 0.8:
            meta.append(rng.choice(['MMD Footer: {{foot.txt}}', 'MMD Header: {{inc.txt}}', 'MMD Footer: plain footer %s' % tag]))
        if 'transclude' in features and rng.random() < 0.8:
            body.append(rng.choice(['{{inc.txt}}', 'before {{inc.txt}} after', '{{nope.txt}} {{inc.txt}}']))
        if 'critic' in features and rng.random() < 0.9:
            body.append(rng.choice(['keep {++added %s++} {--removed--} {~~old~>new~~} end' % tag, 'x {==hi==}{>>note<<} y {++ins++}', 'p1 {++ ins\n\nacross++} p2', 'p1 {--del\n\nacross--} p2 %s' % tag]))
        if rng.random() < 0.3:
            body.append('<%s@example.org>' % tag.lower())
        text = (('\n'.join(meta) + '\n\n') if meta else '') + '\n\n'.join(body) + '\n'
        files.append((os.path.join(d, 'doc%d.txt' % i), text.encode()))
    return files, extra


def batch_vs_single(r, cli, rng, features, flag_choices, fmt=None, keyprefix='cli-batch-differs'):
    fmt = fmt or rng.choice(['html', 'html', 'latex', 'fodt'])
    files, extra = gen_files(rng, features)
    flags = list(rng.choice(flag_choices))
    tdir = tempfile.mkdtemp(prefix='mmdv-batch-', dir=D.SCRATCH_ROOT)
    try:
        for rel, data in list(extra.items()) + files:
            p = os.path.join(tdir, rel)
            os.makedirs(os.path.dirname(p), exist_ok=True)
            open(p, 'wb').write(data)
        single = {}
        for rel, _ in files:
            out = os.path.join(tdir, 'single.out')
            if os.path.exists(out):
                os.unlink(out)
            rc, so, se = _run(cli, flags + ['-t', fmt, '-o', out, rel], tdir)
            r.evaluations += 1
            single[rel] = open(out, 'rb').read() if rc == 0 and os.path.exists(out) else None
        rc, so, se = _run(cli, flags + ['-t', fmt, '-b'] + [rel for rel, _ in files], tdir)
        r.evaluations += 1
        r.stats['cli_batch_runs'] += 1
        if rc != 0:
            r.stats['cli batch run failed (C01/C02 territory)'] += 1
            return
        for idx, (rel, data) in enumerate(files):
            bp = os.path.join(tdir, os.path.splitext(rel)[0] + EXT_OF[fmt])
            got = open(bp, 'rb').read() if os.path.exists(bp) else None
            ref = single[rel]
            if ref is None:
                continue
            r.stats['cli_batch_files_compared'] += 1
            if got is None:
                r.violate('%s:no-output' % keyprefix, 'multimarkdown %s -t %s -b wrote no %s for file %d of %d' % (' '.join(flags), fmt, EXT_OF[fmt], idx + 1, len(files)),
                          dict(files={k: core.show(v, 300) for k, v in files}, flags=flags, fmt=fmt))
            elif got != ref:
                i = 0
                while i < min(len(got), len(ref)) and got[i] == ref[i]:
                    i += 1
                feat = '+'.join(sorted(features)) or 'plain'
                r.violate('%s:%s:%s' % (keyprefix, 'first-file' if idx == 0 else 'later-file', feat),
                          'multimarkdown %s -t %s: file %d of a batch (%s) renders differently from the same file converted alone (byte %d)' % (' '.join(flags), fmt, idx + 1, rel, i),
                          dict(files={k: core.show(v, 300) for k, v in files}, extra={k: core.show(v, 120) for k, v in extra.items()}, flags=flags, fmt=fmt),
                          'alone : %s\nbatch : %s' % (core.show(ref[max(0, i - 60):i + 100]), core.show(got[max(0, i - 60):i + 100])))
    finally:
        shutil.rmtree(tdir, ignore_errors=True)


def flag_relations(r, cli, rng, keyprefix='cli-flags'):
    """option sets the tool documents as equivalent must render the same: -a together with -r cancel each other (main.c: "old options that
    don't apply now"), in either order and in the long spelling"""
    files, extra = gen_files(rng, {'critic'})
    rel, data = files[0]
    fmt = rng.choice(['html', 'latex', 'fodt'])
    tdir = tempfile.mkdtemp(prefix='mmdv-flags-', dir=D.SCRATCH_ROOT)
    try:
        p = os.path.join(tdir, 'doc.txt')
        open(p, 'wb').write(data)
        rc0, ref, _ = _run(cli, ['-t', fmt, 'doc.txt'], tdir)
        r.evaluations += 1
        if rc0 != 0:
            return
        for flags in (['-a', '-r'], ['-r', '-a'], ['--accept', '--reject']):
            rc, out, _ = _run(cli, flags + ['-t', fmt, 'doc.txt'], tdir)
            r.evaluations += 1
            r.stats['cli_flag_relations_checked'] += 1
            if rc == 0 and out != ref:
                i = 0
                while i < min(len(out), len(ref)) and out[i] == ref[i]:
                    i += 1
                r.violate('%s:accept+reject-not-neutral' % keyprefix, 'multimarkdown %s -t %s renders differently from no CriticMarkup option at all (byte %d)' % (' '.join(flags), fmt, i),
                          dict(source=core.show(data, 400), flags=flags, fmt=fmt), 'plain: %s\nflags: %s' % (core.show(ref[max(0, i - 60):i + 100]), core.show(out[max(0, i - 60):i + 100])))
                break
    finally:
        shutil.rmtree(tdir, ignore_errors=True)
