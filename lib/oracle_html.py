"""Independent reference renderer: gendoc AST -> the HTML the syntax guide prescribes.

Written from the documentation (Markdown syntax as shipped in tests/MMD6Tests/Markdown Syntax.text,
README "Differences in the MultiMarkdown Syntax", QuickStart) for the unambiguous constructs that
lib/gendoc.py generates.  Inter-block whitespace follows the writer's documented discipline (one
blank line between blocks), which is part of the observable format the corpus documents.
Smart typography is off here (C03 checks it separately through relations).
"""


def esc(s):
    return s.replace('&', '&amp;').replace('<', '&lt;').replace('>', '&gt;').replace('"', '&quot;')


def label(s):
    out = ''
    for c in s:
        if ord(c) > 127:
            out += c
        elif c.isalnum() or c in '._-:':
            out += c.lower()
    return out


class Renderer:
    def __init__(self, doc, smart=False, compat=False):
        self.doc = doc
        self.smart = smart
        self.compat = compat
        self.notes = []          # idents in order of first use

    # ---- inlines
    def inl(self, nodes):
        return ''.join(self.i1(n) for n in nodes)

    def plain(self, nodes):
        """source-ish text of inlines, for labels"""
        out = ''
        for n in nodes:
            if n.kind == 'text':
                out += n.s
            elif hasattr(n, 'ch'):
                out += self.plain(n.ch)
            elif hasattr(n, 's'):
                out += n.s
        return out

    def i1(self, n):
        k = n.kind
        if k == 'text':
            return esc(n.s)
        if k == 'emph':
            return '<em>' + self.inl(n.ch) + '</em>'
        if k == 'strong':
            return '<strong>' + self.inl(n.ch) + '</strong>'
        if k == 'code':
            return '<code>' + esc(n.s) + '</code>'
        if k == 'link':
            return '<a href="%s"%s>%s</a>' % (esc(n.url), (' title="%s"' % esc(n.title)) if n.title else '', self.inl(n.ch))
        if k == 'image':
            return '<img src="%s" alt="%s"%s />' % (n.url, n.alt, (' title="%s"' % n.title) if n.title else '')
        if k == 'break':
            return '<br />\n'
        if k == 'soft':
            return '\n'
        if k == 'esc':
            return esc(n.c)
        if k == 'entity':
            return '&%s;' % n.name
        if k == 'autolink':
            return '<a href="%s">%s</a>' % (esc(n.url), esc(n.url))
        if k == 'math':
            return '<span class="math">\\(' + esc(n.s) + '\\)</span>'
        if k == 'sup':
            return '<sup>%s</sup>' % esc(n.s)
        if k == 'sub':
            return '<sub>%s</sub>' % esc(n.s)
        if k == 'footref':
            if n.ident not in self.notes:
                self.notes.append(n.ident)
            i = self.notes.index(n.ident) + 1
            return '<a href="#fn:%d" id="fnref:%d" title="see footnote" class="footnote"><sup>%d</sup></a>' % (i, i, i)
        if k == 'smart':
            inner = self.inl(n.ch)
            if self.smart:
                return {'dq': '&#8220;%s&#8221;', 'sq': '&#8216;%s&#8217;', 'endash': '&#8211;%s', 'emdash': '&#8212;%s', 'ellipsis': '&#8230;%s', 'apos': '&#8217;s%s'}[n.form] % inner
            return {'dq': '&quot;%s&quot;', 'sq': "'%s'", 'endash': '--%s', 'emdash': '---%s', 'ellipsis': '...%s', 'apos': "'s%s"}[n.form] % inner
        raise ValueError(k)

    # ---- blocks
    def block(self, b, tight_item=False):
        k = b.kind
        if k == 'para':
            if tight_item:
                return self.inl(b.ch)
            return '<p>' + self.inl(b.ch) + '</p>'
        if k == 'heading':
            if self.compat:
                return '<h%d>%s</h%d>' % (b.level, self.inl(b.ch), b.level)
            lab = b.label if b.label else label(self.plain(b.ch))
            return '<h%d id="%s">%s</h%d>' % (b.level, lab, self.inl(b.ch), b.level)
        if k == 'rule':
            return '<hr />'
        if k == 'figure':
            img = '<img src="%s" alt="%s"%s />' % (b.url, b.alt, (' title="%s"' % b.title) if b.title else '')
            if self.compat:
                return '<p>%s</p>' % img
            return '<figure>\n%s\n<figcaption>%s</figcaption>\n</figure>' % (img, esc(b.alt))
        if k == 'codeblock':
            cls = (' class="%s"' % b.lang) if (b.fenced and b.lang) else ''
            return '<pre><code%s>%s\n</code></pre>' % (cls, esc('\n'.join(b.lines)))
        if k == 'quote':
            return '<blockquote>\n' + '\n\n'.join(self.block(x) for x in b.blocks) + '\n</blockquote>'
        if k == 'list':
            tag = 'ol' if b.ordered else 'ul'
            items = []
            for it in b.items:
                if b.tight:
                    parts = [self.block(it[0], tight_item=True)] + [self.block(x) for x in it[1:]]
                else:
                    parts = [self.block(x) for x in it]
                items.append('<li>' + '\n\n'.join(parts) + '</li>')
            return '<%s>\n%s\n</%s>' % (tag, '\n'.join(items), tag)
        if k == 'table':
            sty = {'l': ' style="text-align:left;"', 'r': ' style="text-align:right;"', 'c': ' style="text-align:center;"', 'n': ''}
            out = '<table id="%s">\n<caption style="caption-side: bottom;">%s</caption>\n' % (label(b.caption), esc(b.caption)) if b.caption else '<table>\n'
            out += '<colgroup>\n' + ''.join('<col%s/>\n' % (sty[a] if a != 'n' else ' ') for a in b.aligns) + '</colgroup>\n\n'
            out += '<thead>\n<tr>\n' + ''.join('\t<th%s> %s </th>\n' % (sty[a], self.inl(c)) for a, c in zip(b.aligns, b.header)) + '</tr>\n</thead>\n\n'
            out += '<tbody>\n'
            for r in b.rows:
                out += '<tr>\n'
                col = 0
                for c in r:
                    if getattr(c, 'kind', None) == 'cellspan':
                        out += '\t<td%s colspan="%d"> %s </td>\n' % (sty[b.aligns[col]], c.n, self.inl(c.ch))
                        col += c.n
                    else:
                        out += '\t<td%s> %s </td>\n' % (sty[b.aligns[col]], self.inl(c))
                        col += 1
                out += '</tr>\n'
            out += '</tbody>\n</table>'
            return out
        if k == 'deflist':
            parts = []
            for term, defs in b.entries:
                parts.append('<dt>%s</dt>\n' % self.inl(term) + '\n\n'.join('<dd>%s</dd>' % self.inl(d) for d in defs))
            return '<dl>\n' + '\n\n'.join(parts) + '\n</dl>'
        raise ValueError(k)

    def render(self):
        out = '\n\n'.join(self.block(b) for b in self.doc.blocks)
        if self.notes:
            out += '\n\n<div class="footnotes">\n<hr />\n<ol>\n\n'
            for i, ident in enumerate(self.notes):
                out += '<li id="fn:%d">\n<p>%s <a href="#fnref:%d" title="return to body" class="reversefootnote">&#160;&#8617;&#xfe0e;</a></p>\n</li>\n\n' % (
                    i + 1, self.inl(self.doc.footnotes[ident]), i + 1)
            out += '</ol>\n</div>'
        return out + '\n'


def render(doc, smart=False, compat=False):
    return Renderer(doc, smart, compat).render()
