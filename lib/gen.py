"""Input generators shared by the checks.  Everything is a deterministic function of the rng passed in."""
import os, glob, random, io, zipfile

REPO = os.environ.get('VERIF_REPO', '/repo')

_corpus = None


def corpus():
    """All test documents shipped with the repository (bytes), name -> content."""
    global _corpus
    if _corpus is None:
        c = {}
        for p in sorted(glob.glob(os.path.join(REPO, 'tests', '**', '*.text'), recursive=True)):
            c[os.path.relpath(p, REPO)] = open(p, 'rb').read()
        for p in sorted(glob.glob(os.path.join(REPO, 'tests', '**', '*.opml'), recursive=True))[:0]:
            pass
        q = os.path.join(REPO, 'QuickStart', 'QuickStart.txt')
        if os.path.exists(q):
            c['QuickStart/QuickStart.txt'] = open(q, 'rb').read()
        _corpus = c
    return _corpus


def corpus_list():
    return list(corpus().values())


# every literal the lexer knows, plus markers of the higher-level syntaxes
DICT = [b'*', b'**', b'***', b'_', b'__', b'`', b'``', b'```', b'````', b'`````', b'~', b'~~', b'^', b'[', b']', b'[^', b'[#', b'[?', b'[>',
        b'[%', b'![', b'(', b')', b'<', b'>', b'{{', b'}}', b'{', b'}', b'{++', b'++}', b'{--', b'--}', b'{~~', b'~>', b'~~}',
        b'{==', b'==}', b'{>>', b'<<}', b'{=', b'{{TOC}}', b'{{TOC:2-3}}', b'{{TOC:1}}', b'$', b'$$', b'\\(', b'\\)', b'\\[', b'\\]', b'\\', b'\\\\',
        b'|', b'||', b'|:-', b'-:|', b':-:', b'---', b'===', b'- ', b'* ', b'+ ', b'1. ', b'> ', b': ', b'# ', b'## ', b'###### ', b' #', b'\t', b'    ',
        b'  \n', b'\n', b'\n\n', b'\r\n', b'\r', b'&', b'&amp;', b'&#123;', b'&#x1F;', b'&copy;', b'"', b"'", b'--', b'---', b'...', b'. . .',
        b'<!--', b'-->', b'<div>', b'</div>', b'<b>', b'<a href="x">', b'<http://a.b/c>', b'<me@example.org>', b'mailto:', b'http://',
        b'[a]: http://x "t" k=v', b'[^f]: note', b'[#c]: cite', b'[?g]: gloss', b'[>ab]: abbrev', b'Title: x', b'---\n', b'...\n',
        b' key=', b' key=""', b" k='v'", b' width=1', b'=', b'%', b'#', b'[%title]', b'[TOC]', b'<<', b'>>', b"''", b'``q', b'\xe2\x80\x9c',
        b'\xc2\xa0', b'\xc3\xa0', b'\xef\xbb\xbf', b'\xf0\x9f\x98\x80', b'\xe4\xb8\xa0', b'\xff', b'\xc3', b'\x80', b'\x01', b'\x7f', b'\x1b',
        b'base header level: 2', b'latex mode: memoir', b'mmd header: x', b'mmd footer: y', b'language: de', b'quotes language: fr',
        b'css: a.css', b'bibtex: b.bib', b'html header: <x>', b'xhtml header: <y>', b'latex config: article', b'odf header: <z/>',
        b'transclude base: .', b'{{a.txt}}', b'{{a.*}}', b'[fig]: a.png "t" width=1', b'![a](b.png)', b'[x](y "t")', b'[x][y]', b'[x][]',
        b'[^x]', b'[#x]', b'[#x;]', b'[?x]', b'[>x]', b'[see][#x]', b'[Not cited][#x]', b'*[x]: y', b'^x^', b'~x~', b'x^2', b'x~2',
        b'```c', b'~~~', b'    code', b'Term\n: def', b'|a|b|\n|-|-|\n|c|d|', b'[cap]\n|a|\n|-|', b'-   ', b'7. ', b'#.', b'\\ ', b'\\\n']


def gen_bytes(rng, maxlen=600):
    """Hostile byte string: corpus splices, dictionary tokens, amplifiers, raw bytes."""
    mode = rng.random()
    docs = corpus_list()
    if mode < 0.12:
        return amplifier(rng)
    out = bytearray()
    if mode < 0.45:
        # splice 1..4 corpus fragments on line boundaries, then mutate
        for _ in range(rng.randint(1, 4)):
            d = rng.choice(docs)
            lines = d.split(b'\n')
            a = rng.randrange(len(lines))
            out += b'\n'.join(lines[a:a + rng.randint(1, 12)]) + b'\n'
        out = mutate(rng, out, rng.randint(0, 8))
    else:
        n = rng.randint(1, 60)
        for _ in range(n):
            r = rng.random()
            if r < 0.55:
                out += rng.choice(DICT)
            elif r < 0.8:
                out += rng.choice([b'a', b'word', b'x y', b' ', b'1', b'A', b'foo bar', b'z'])
            elif r < 0.9:
                out += b'\n' * rng.randint(1, 2)
            else:
                out += bytes([rng.randrange(1, 256)])
        if rng.random() < 0.3:
            out = mutate(rng, out, rng.randint(1, 4))
    out = bytes(out).replace(b'\0', b' ')
    return out[:maxlen * 4]


def mutate(rng, b, n):
    b = bytearray(b)
    for _ in range(n):
        if not b:
            b += rng.choice(DICT)
            continue
        r = rng.random()
        p = rng.randrange(len(b) + 1)
        if r < 0.3:
            b[p:p] = rng.choice(DICT)
        elif r < 0.45 and p < len(b):
            del b[p:p + rng.randint(1, 8)]
        elif r < 0.6 and p < len(b):
            b[p] = rng.randrange(1, 256)
        elif r < 0.75:
            q = rng.randrange(len(b) + 1)
            a, c = min(p, q), max(p, q)
            b[p:p] = b[a:min(c, a + 200)]
        elif r < 0.85:
            b[p:p] = rng.choice(DICT) * rng.randint(2, 70)
        else:
            # cut at p (unterminated constructs)
            del b[p:]
    return b


def amplifier(rng):
    """Structures aimed at the fixed-size buffers and look-behind/ahead sites found while reading."""
    k = rng.randrange(17)
    if k == 16:     # runs that are counted: a run of pipes is one cell spanning that many columns, counted in the writers' per-row counters
        n = rng.choice([255, 256, 32766, 32767, 32768, 32769, 40000, 65535, 65536, 70000])
        head = rng.choice([b'a|b|c\n-|-|-\n', b'| a | b |\n|:-:|--:|\n', b'|a|\n|-|\n'])
        return head + b'x' + b'|' * n + rng.choice([b'y|z|w\n', b'\n', b'y', b' |\n'])
    if k == 0:      # wide tables around kMaxTableColumns
        n = rng.choice([47, 48, 49, 50, 64, 100, 130])
        row = b'|' + b'|'.join(b'c%d' % i for i in range(n)) + b'|\n'
        sep = b'|' + b'|'.join(rng.choice([b'-', b':-', b'-:', b':-:', b'-+']) for i in range(n)) + b'|\n'
        return (b'' if rng.random() < 0.7 else b'[cap]\n') + row + (sep if rng.random() < 0.8 else b'') + row * rng.randint(0, 2)
    if k == 1:      # attribute shapes
        key = rng.choice([b'key', b'k', b'width', b'class', b'a'])
        val = rng.choice([b'', b' ', b'v', b'"v"', b'""', b"'v'", b' v', b'"', b'=', b'1 b=2 c='])
        form = rng.choice([b'[x](y %s=%s)\n', b'[x]: y %s=%s\n\n[x]\n', b'![x](y "t" %s=%s)\n', b'[x]: y "t" %s=%s\n\n![x][]\n', b'[x](<y> %s=%s)\n'])
        return form % (key, val)
    if k == 2:      # long urls / labels
        n = rng.choice([99, 100, 101, 127, 128, 129, 200, 255, 256, 257, 300, 500, 507, 508, 511, 512, 513, 600, 800, 990, 995, 996, 999, 1000, 1001, 1023, 1024, 1100, 1101, 2000, 4095, 4096, 5000])
        u = b'u' * n
        if rng.random() < 0.3:
            # keys of the search tables (abbreviations and glossary terms go into a trie whose work buffers are sized by node count)
            form = rng.choice([b'[>%s]: Expansion\n\ntext %s here\n', b'[?%s]: Definition\n\nterm [?%s] here\n', b'[#%s]: Cite\n\ncite [#%s]\n', b'[>(%s) Expansion inline] and %s\n'])
            return form % (u, u)
        return rng.choice([b'![a](%s.png)\n', b'[a](%s)\n', b'[a]: %s\n\n[a]\n', b'{{%s}}\n', b'<http://%s>\n', b'# %s #\n', b'[^%s]\n', b'x: %s\n\nb\n']) % u
    if k == 3:      # empty labels and bracket forms without parens
        return rng.choice([b'[]\n', b'[][]\n', b'![]\n', b'[^]\n', b'[#]\n', b'[?]\n', b'[>]\n', b'[%]\n', b'[]()\n', b'![]()\n', b'[](', b'[a](',
                           b'[a][', b'[^a', b'[>a] b\n', b'[?a] b\n', b'[]: x\n', b'[^]: x\n', b'[>]: x\n', b'[?]: \n', b'[#]:\n'])
    if k == 4:      # captions / notes at EOF
        return rng.choice([b'[cap]', b'|a|\n|-|\n[cap]', b'[^f]:', b'[^f]:\n\n\n', b'[^f]: \n\n    \n', b'x[^f]\n\n[^f]:\n', b'[?g]:\n\nx[?g]', b'x[>a]\n\n[>a]:'])
    if k == 5:      # deep nesting (kept small here; C07 does the big ones)
        o = rng.choice([b'[', b'![', b'[^', b'(', b'<', b'{{', b'*a ', b'_a ', b'**', b'`', b'> ', b'- ', b'{++', b'{--', b'{==', b'{>>', b'{~~', b'\\(', b'"', b"'", b'^', b'~'])
        n = rng.choice([10, 100, 500, 999, 1000, 1001, 1500])
        c = {b'[': b']', b'![': b']', b'[^': b']', b'(': b')', b'<': b'>', b'{{': b'}}', b'{++': b'++}', b'{--': b'--}', b'{==': b'==}', b'{>>': b'<<}', b'{~~': b'~>x~~}', b'\\(': b'\\)'}.get(o, o.strip())
        return o * n + b'x' + (c * n if rng.random() < 0.5 else b'') + b'\n'
    if k == 6:      # metadata shapes
        return rng.choice([b'Title: A', b'Title:', b'Title: \n', b'a:\n', b'---\nTitle: x\n---', b'---\n', b'---\nTitle: x', b'Title: x\n    cont',
                           b'Title: x\n\tcont\nAuthor: y\n\n', b'T i t l e: x\n', b'\xef\xbb\xbfTitle: x\n\nbody', b'Base Header Level: 99\n\n# h\n', b'base header level: -3\n\n# h\n',
                           b'latex mode: beamer\nlatex leader: x\nlatex begin: y\nlatex footer: z\n\n# a\n', b'mmd header: {{x}}\nmmd footer: [%title]\ntitle: t\n\nbody [%title] [%nokey]\n',
                           b'language: zz\nquotes language: qq\n\n"x"\n', b'css: ' + b'c' * 300 + b'\n\nx\n'])
    if k == 7:      # CR / CRLF mixes
        d = rng.choice(corpus_list())[:800]
        return d.replace(b'\n', rng.choice([b'\r\n', b'\r', b'\n\r']))
    if k == 8:      # invalid utf-8 around syntax
        bad = rng.choice([b'\xff', b'\xc3', b'\xe2\x80', b'\xf0\x9f', b'\x80', b'\xa0', b'\xc0\xaf', b'\xed\xa0\x80'])
        syn = rng.choice(DICT)
        return bad + syn + bad + b' a' + bad + b'\n' + syn + bad
    if k == 9:      # fences and html comments unterminated
        return rng.choice([b'```\nx', b'```', b'````\n```\n', b'<!--', b'<!-- x\n\ny', b'x <!-- y', b'<div>\nx', b'<div', b'</', b'<a href="', b'```\n```\n```', b'`````x\n`````\n'])
    if k == 10:     # table edge cases
        return rng.choice([b'|\n|-\n', b'||\n|-|\n', b'|a\n-|\n', b'a|b\n-|-\n||\n', b'|a||\n|-|-|\n|b||\n', b'| a | b |\n|:-:|-:|\n| c ||\n\n[cap]\n', b'|a|\n|-|\n\n|b|\n|-|\n',
                           b'[c][l]\n|a|\n|-|\n', b'|a|\n|-|\n[c][l]', b'|' * 200 + b'\n' + b'|-' * 100 + b'\n', b'|a|\n|' + b'-|' * 60 + b'\n'])
    if k == 11:     # definition list edge cases
        return rng.choice([b'a\n: b\n', b': b\n', b'a\n\n: b\n\n    c\n', b'a\n: \n', b'a\n:b\n', b'a\n: b\n: c\nd\n: e\n', b'a\n\n:\n',
                           # a definition that is dissolved again (its term is an indented line): what was parsed inside it -- a heading, a table -- goes with it
                           b'    Term\n: def H2\n    ------\n\nend\n', b'    Term\n: # Head #\n\nend\n', b'    Term\n: | a | b |\n    |---|---|\n    | c | d |\n\nend\n',
                           b'    Term\n: def H1\n    ======\n\n[def H1][] {{TOC}}\n', b'\tT\n: x\n\t---\n: y\n\t===\n'])
    if k == 12:     # TOC / variables
        return rng.choice([b'{{TOC}}\n', b'{{TOC:}}\n', b'{{TOC:9}}\n\n# a\n', b'{{TOC:2-1}}\n# a\n## b\n', b'# a\n{{TOC}}\n# b\n{{TOC:1-2}}\n', b'{{TOC:3-}}', b'[%]', b'[%a', b'x: y\n\n[%x][%x]\n'])
    if k == 13:     # critic markup edges
        return rng.choice([b'{~~a~>b~~}', b'{~~~>~~}', b'~>', b'{~~a~~}', b'{++\n\n++}', b'{--{++a++}--}', b'{>><<}', b'{==a==}{>>b<<}', b'{++a', b'a++}', b'{~~a~>b', b'{--\n\n# x\n\n--}'])
    if k == 14:     # html / entities / autolinks
        return rng.choice([b'<me@x.y>', b'<mailto:me@x.y>', b'<http://>', b'<a@>', b'&#;', b'&#x;', b'&#99999999999;', b'&;', b'&a', b'<>', b'< >', b'<a\n>', b'<!---->', b'<?x?>', b'<![CDATA[x]]>'])
    # k == 15: one long line / many short lines
    if rng.random() < 0.5:
        return rng.choice(DICT) * rng.randint(100, 3000)
    return (rng.choice(DICT) + b'\n') * rng.randint(100, 1500)


ALL_FORMATS = list(range(13))
TEXT_FORMATS = [0, 2, 3, 4, 5, 9, 10, 11]
LANGS = list(range(7))   # enum smart_quotes_language / LC_* share 0..6
EXT_BITS = 17


def rand_ext(rng):
    """Random subset of the 17 extension bits, biased towards the CLI's canonical sets."""
    from .drv import EXT_CLI, EXT_CLI_COMPAT, EXT
    r = rng.random()
    if r < 0.3:
        e = EXT_CLI
    elif r < 0.4:
        e = EXT_CLI_COMPAT
    elif r < 0.5:
        e = EXT_CLI | EXT['COMPLETE']
    elif r < 0.55:
        e = EXT_CLI | EXT['SNIPPET']
    else:
        e = rng.getrandbits(EXT_BITS)
    # OPML / ITMZ parsing of arbitrary text is a separate entry point; keep it rare here
    if rng.random() < 0.9:
        e &= ~(EXT['PARSE_OPML'] | EXT['PARSE_ITMZ'])
    return e


def make_itmz(mapdata, extra=None):
    bio = io.BytesIO()
    with zipfile.ZipFile(bio, 'w', zipfile.ZIP_DEFLATED) as z:
        z.writestr('mapdata.xml', mapdata)
        for k, v in (extra or {}).items():
            z.writestr(k, v)
    return bio.getvalue()


def hostile_opml(rng):
    """OPML-ish text: valid skeletons with hostile attributes, truncations, and byte noise."""
    def attr():
        name = rng.choice(['text', '_note', 'x', 't', 'te', 'tex', 'texts', '_not', 'a', 'note', 'TEXT', ''])
        val = rng.choice(['v', '', '&amp;', '&lt;x&gt;', '&#10;', '&#13;', '&quot;', '&apos;', '&', '&#', '&#1', '&am', 'a&#10;b', '&gt;&gt;Preamble&lt;&lt;',
                          '&gt;&gt;Metadata&lt;&lt;', 'Title', '>>Preamble<<', 'x' * rng.randint(1, 50), '\u00e0\u00a0'])
        q = rng.choice(['"', '"', '"', "'", ''])
        return '%s=%s%s%s' % (name, q, val, rng.choice([q, q, q, '']))
    def outline(depth):
        s = '<outline ' + ' '.join(attr() for _ in range(rng.randint(0, 4)))
        if rng.random() < 0.4 or depth > 3:
            return s + rng.choice(['/>', '/>', '>', ' /', ''])
        return s + '>' + ''.join(outline(depth + 1) for _ in range(rng.randint(0, 3))) + rng.choice(['</outline>', '</outline>', '', '</outlin'])
    body = ''.join(outline(0) for _ in range(rng.randint(0, 4)))
    doc = rng.choice(['<?xml version="1.0" encoding="utf-8"?>\n', '']) + rng.choice(['<opml version="1.0">', '<opml>', '']) + \
        rng.choice(['<head><title>t</title></head>', '<head>', '']) + rng.choice(['<body>', '']) + body + rng.choice(['</body></opml>', '</body>', ''])
    b = doc.encode('utf-8')
    if rng.random() < 0.4:
        b = bytes(mutate(rng, b, rng.randint(1, 4))).replace(b'\0', b' ')
    return b


def amplifier_meta(rng):
    """Documents that start with (something like) a metadata block."""
    keys = [b'Title', b'author', b'Base Header Level', b'mmd header', b'mmd footer', b'MMD Header', b'css', b'html header', b'latex mode', b'language',
            b'quotes language', b'bibtex', b'transclude base', b'latex config', b'xhtml header', b'odf header', b'k e y', b'K.1_-', b'date', b'copyright',
            b'latexheaderlevel', b'htmlheaderlevel', b'epubheaderlevel', b'odfheaderlevel', b'latex title', b'latex author', b'mmdheader', b'mmdfooter']
    vals = [b'x', b'', b' ', b'2', b'-1', b'99', b'a: b', b'[%title]', b'{{a.txt}}', b'<x>', b'"q"', b'memoir', b'beamer', b'de', b'fr', b'\xc3\xa0\xc2\xa0 ', b'v' * 150,
            b'line1\n    line2', b'line1\nline2', b'a  \n\tb', b'&amp; & <', b'\\', b'%', b'# not heading', b'* item']
    out = bytearray()
    if rng.random() < 0.15:
        out += b'---\n'
    for _ in range(rng.randint(1, 6)):
        out += rng.choice(keys) + rng.choice([b':', b': ', b':\t', b' : ']) + rng.choice(vals) + rng.choice([b'\n', b'\n', b'\r\n', b'  \n'])
    if rng.random() < 0.15:
        out += rng.choice([b'---\n', b'...\n'])
    t = rng.random()
    if t < 0.6:
        out += b'\n' + rng.choice([b'body [%title] text\n', b'# H\n\npara\n', b'', b'[%nokey]', b'x']) + (gen_bytes(rng)[:200] if rng.random() < 0.3 else b'')
    elif t < 0.8:
        out = out.rstrip(b'\r\n')      # EOF without newline
    return bytes(out)


def critic_bytes(rng):
    parts = [b'{++', b'++}', b'{--', b'--}', b'{~~', b'~>', b'~~}', b'{==', b'==}', b'{>>', b'<<}', b'a', b'word ', b' ', b'\n', b'\n\n', b'\\{', b'\\}', b'{', b'}',
             b'*', b'# ', b'\xc3\xa0', b'+', b'-', b'~', b'=', b'<', b'>']
    return b''.join(rng.choice(parts) for _ in range(rng.randint(1, 40)))


# sources whose *body* renders to nothing or nearly nothing (boundary of every "write the result" path)
EDGE_SOURCES = [b'', b'\n', b'\n\n\n', b' ', b'  \n', b'\t\n', b'[a]: http://example.com/\n', b'[a]: http://example.com/ "T"\n\n[b]: <x>\n', b'[^f]: unused note\n',
                b'[#c]: unused citation\n', b'[>AB]: unused abbreviation\n', b'[?g]: unused glossary\n', b'Title: only metadata\n', b'Title: t\nAuthor: a\n\n',
                b'---\ntitle: y\n---\n', b'<!-- only a comment -->\n', b'x', b'x\n', b'\\\n', b'#\n', b'* \n', b'> \n', b'```\n```\n', b'{{TOC}}\n', b'\xef\xbb\xbf', b'\r\n', b'\r']


def edge_source(rng):
    return rng.choice(EDGE_SOURCES)


def state_heavy(rng):
    """Documents that draw heavily on process-wide or per-engine hidden state: e-mail obfuscation (random numbers, the generator
    refills its buffer every 100 draws), footnote/citation/glossary counters, heading label tables, abbreviation tables."""
    parts = []
    for _ in range(rng.randint(1, 4)):
        k = rng.random()
        if k < 0.45:
            n = rng.choice([1, 2, 5, 8, 12, 20, 40])
            parts.append(' '.join('<user%d.%s@example%d.org>' % (i, 'x' * rng.randint(0, 12), rng.randint(0, 99)) for i in range(n)))
        elif k < 0.6:
            n = rng.randint(1, 12)
            parts.append(' '.join('note[^n%d]' % i for i in range(n)) + '\n\n' + '\n\n'.join('[^n%d]: text %d <a%d@b.c>' % (i, i, i) for i in range(n)))
        elif k < 0.75:
            n = rng.randint(1, 10)
            parts.append('\n\n'.join('%s Heading %d\n\nsee [Heading %d][] and mailto:x%d@y.z' % ('#' * rng.randint(1, 4), i, rng.randint(0, n), i) for i in range(n)) + '\n\n{{TOC}}')
        elif k < 0.85:
            parts.append('[mail me](mailto:someone.%d@example.com) and [>AB%d] AB%d\n\n[>AB%d]: abbreviation' % ((rng.randint(0, 9),) * 4))
        else:
            parts.append('cite[#c%d] term [?g%d]\n\n[#c%d]: Author. *Title*.\n\n[?g%d]: definition' % ((rng.randint(0, 9),) * 4))
    return ('\n\n'.join(parts) + '\n').encode()


# lengths at which size-rounding code changes behaviour (powers of two and their neighbours, buffer sizes used in src/)
BOUNDARY_LENGTHS = sorted(set(v for k in range(4, 17) for v in ((1 << k) - 2, (1 << k) - 1, 1 << k, (1 << k) + 1)) | set([999, 1000, 1001, 3 * 1024, 5 * 1024 - 1, 5 * 1024]))


def fit_length(rng, b, n=None):
    """b repeated / cut to exactly n bytes (n from BOUNDARY_LENGTHS by default), NUL-free."""
    n = n if n is not None else rng.choice(BOUNDARY_LENGTHS)
    b = b.replace(b'\0', b' ') or b'x '
    out = (b * (n // len(b) + 1))[:n]
    return out


def line_sequence(rng, lo=1, hi=5):
    """1..5 line-kind representatives (the table C02 enumerates), random line ending, final line ending present or not."""
    from props import c02
    seq = [rng.randrange(c02.K) for _ in range(rng.randint(lo, hi))]
    body = c02.doc_for(seq)
    eol = rng.choice([b'\n', b'\n', b'\r\n', b'\r'])
    if eol != b'\n':
        body = body.replace(b'\n', eol)
    if rng.random() < 0.5:
        body = body[:-len(eol)]
    return body


# small blocks that are parsed recursively or collected in tables; repeated N times they cross per-document counters and limits
REPEAT_UNITS = [
    ('bullet-2-lines', '* zq%dx item\n  more\n', ''),
    ('bullet-loose', '* zq%dx item\n\n', ''),
    ('enum-nested', '1. zq%dx item\n    * inner\n', ''),
    ('quote', '> zq%dx quote\n\n', ''),
    ('definition', 'term%d\n: zq%dx def\n\n', ''),
    ('heading', '## zq%dx head\n\ntext\n\n', ''),
    ('footnote', 'zq%dx call[^n%d]\n\n[^n%d]: note\n\n', ''),
    ('inline-footnote', 'zq%dx call[^inline note %d]\n\n', ''),
    ('citation', 'zq%dx [#c%d]\n\n[#c%d]: cite\n\n', ''),
    ('abbreviation', 'zq%dx AB%d\n\n[>AB%d]: abbr\n\n', ''),
    ('ref-link', 'zq%dx [l%d][]\n\n[l%d]: http://e.x/%d\n\n', ''),
    ('table', '| zq%dx | b |\n|---|---|\n| c | d |\n\n', ''),
    ('fenced', '```\nzq%dx code\n```\n\n', ''),
    ('image', 'zq%dx ![a%d](i%d.png)\n\n', ''),
    ('email', 'zq%dx <u%d@example.org>\n\n', ''),
    ('html-block', '<div>zq%dx</div>\n\n', 'html-only'),
    ('para', 'zq%dx plain *emph* `code`\n\n', ''),
    ('math', 'zq%dx \\\\(a_%d\\\\) $b^%d$\n\n', ''),
]
REPEAT_COUNTS = [100, 500, 998, 999, 1000, 1001, 1100, 2000, 5000]


def repeated_blocks(rng=None, unit=None, n=None):
    """(name, source bytes, [sentinel words first/middle/last])"""
    name, tpl, _ = unit if unit is not None else rng.choice(REPEAT_UNITS)
    n = n if n is not None else rng.choice(REPEAT_COUNTS)
    k = tpl.count('%d')
    src = ''.join(tpl % ((i,) * k) for i in range(n))
    return name, src.encode(), ['zq%dx' % i for i in (0, n // 2, n - 1)]
