"""Client side of harness/drv.c: spawn a worker for a build variant, send requests, classify deaths."""
import os, re, struct, subprocess, select, signal, tempfile, shutil, time, base64, glob
from . import build as _build

OP = dict(PING=0, CONVERT=1, META=2, CRITIC=3, IMPORT=4, TRANSCLUDE=5, WALK=6, ENGINE=7, XMLRT=8,
          ASSETS=9, LINEKINDS=10, HEADFOOT=11, LINETYPES=12, MANIFEST=13, RESEED=14, POOL=15)

FMT = dict(html=0, epub=1, latex=2, beamer=3, memoir=4, fodt=5, odt=6, textbundle=7, bundlezip=8,
           opml=9, itmz=10, mmd=11, htmlassets=12)
FMT_NAME = {v: k for k, v in FMT.items()}

EXT = dict(COMPATIBILITY=1 << 0, COMPLETE=1 << 1, SNIPPET=1 << 2, SMART=1 << 3, NOTES=1 << 4, NO_LABELS=1 << 5,
           PROCESS_HTML=1 << 6, NO_METADATA=1 << 7, OBFUSCATE=1 << 8, CRITIC=1 << 9, CRITIC_ACCEPT=1 << 10,
           CRITIC_REJECT=1 << 11, RANDOM_FOOT=1 << 12, TRANSCLUDE=1 << 13, PARSE_OPML=1 << 14,
           PARSE_ITMZ=1 << 15, RANDOM_LABELS=1 << 16)
# what the CLI uses by default / with -c
EXT_CLI = EXT['SMART'] | EXT['NOTES'] | EXT['CRITIC'] | EXT['TRANSCLUDE']
EXT_CLI_COMPAT = EXT['COMPATIBILITY'] | EXT['NO_LABELS'] | EXT['OBFUSCATE'] | EXT['NO_METADATA']

ST_OK, ST_EXIT, ST_BAD, ST_PROBE = 0, 1, 2, 3

SCRATCH_ROOT = '/dev/shm' if os.path.isdir('/dev/shm') else tempfile.gettempdir()


class Crash(Exception):
    """The worker died while executing a request."""
    def __init__(self, key, report, rc):
        Exception.__init__(self, key)
        self.key, self.report, self.rc = key, report, rc


class Hang(Exception):
    def __init__(self, secs):
        Exception.__init__(self, 'no reply within %ss' % secs)
        self.secs = secs


class Reply:
    __slots__ = ('status', 'fields', 'events', 'stderr', 'diag', 'ev_total')

    def __init__(self, status, fields):
        self.status = status
        self.fields = fields[:-3]
        self.events = fields[-3].decode('latin1')
        self.stderr = fields[-2]
        self.diag = fields[-1].decode('latin1')
        m = re.match(r'total=(\d+)', self.events)
        self.ev_total = int(m.group(1)) if m else 0

    @property
    def out(self):
        return self.fields[0] if self.fields else b''

    def event_list(self):
        return [tuple(int(x) for x in e.split(':')) for e in self.events.split()[1:]]


_SRC_FRAME = re.compile(r'#\d+ 0x[0-9a-f]+ in (\S+) (/[^\s:]+/src/([^\s:/]+)):(\d+)')
_ANY_FRAME = re.compile(r'#\d+ 0x[0-9a-f]+ in (\S+) ')


def sanitizer_key(report, rc=None):
    """Stable signature naming the failing site: <tool>:<kind>@<innermost function in repo src>."""
    kind = None
    mv = re.search(r'^==\d+== ([A-Z][^\n]*)\n==\d+==\s+(?:at|by) 0x[0-9A-F]+: (\S+)', report, re.M)
    if mv and 'AddressSanitizer' not in report:
        msg = re.sub(r'\d+', 'N', mv.group(1)).strip().replace(' ', '-')[:60]
        fns = [m.group(1) for m in re.finditer(r'^==\d+==\s+(?:at|by) 0x[0-9A-F]+: (\S+) \((\S+?):\d+\)', report, re.M)
               if not m.group(2).startswith(('vg_', 'drv.c', 'common.h'))]
        lib = [f for f in fns if f not in ('malloc', 'calloc', 'realloc', 'free', 'strlen', 'memcpy', 'strncpy', 'strcmp', 'memmove', 'strcpy')]
        return 'memcheck:%s@%s' % (msg, lib[0] if lib else (fns[0] if fns else '?'))
    mu = re.search(r'^\S*?([\w\-\.]+\.[ch]):\d+:\d+: runtime error: (.*)$', report, re.M)
    ma = re.search(r'ERROR: (AddressSanitizer|LeakSanitizer|ThreadSanitizer): ([A-Za-z0-9\-_ ]+?)(?: on | in |:|\n| \()', report)
    if mu and (not ma or mu.start() < ma.start()):
        msg = re.sub(r'0x[0-9a-f]+', 'P', mu.group(2))
        msg = re.sub(r'-?\d+', 'N', msg)
        msg = re.sub(r"'[^']*'", 'T', msg)
        kind = 'ubsan:' + msg.strip().replace(' ', '-')[:60]
        report = report[mu.start():]
    elif ma:
        kind = 'asan:' + ma.group(2).strip().replace(' ', '-')
        if 'SEGV' in kind:
            kind = 'asan:SEGV'
        if 'stack-overflow' in kind:
            kind = 'asan:stack-overflow'
    if kind is None:
        if rc is not None and rc < 0:
            try:
                kind = 'signal:' + signal.Signals(-rc).name
            except ValueError:
                kind = 'signal:%d' % -rc
        else:
            kind = 'died:rc=%s' % rc
    fn = None
    # stack frames belonging to the first stack trace only
    first = report.split('\n\n')[0] if report else ''
    for scope in (first, report):
        for m in _SRC_FRAME.finditer(scope):
            if '/harness/' in m.group(2):
                continue
            fn = m.group(1)
            break
        if fn:
            break
    if fn is None:
        m = _ANY_FRAME.search(report or '')
        fn = m.group(1) if m else '?'
    return '%s@%s' % (kind, fn)


class Driver:
    """One worker process.  Not thread-safe; one per Python worker."""

    def __init__(self, variant='asan', prog='drv', timeout=20.0, env=None, extra_defs=(), wrapper=()):
        self.wrapper = list(wrapper)
        if variant.startswith('memcheck:'):
            # plain (uninstrumented) build under valgrind memcheck: uninitialised-value use, which ASan/UBSan cannot see
            variant = variant.split(':', 1)[1]
            self.wrapper = ['valgrind', '-q', '--error-exitcode=99', '--exit-on-first-error=yes', '--undef-value-errors=yes', '--track-origins=yes', '--num-callers=25',
                            '--suppressions=' + os.path.join(_build.HARNESS, 'memcheck.supp')]
            timeout = timeout * 15
        self.variant, self.prog, self.timeout = variant, prog, timeout
        self.exe = _build.build(variant, (prog,), extra_defs)[prog]
        self.scratch = tempfile.mkdtemp(prefix='mmdv-', dir=SCRATCH_ROOT)
        self.env = dict(os.environ)
        self.env['ASAN_OPTIONS'] = ('abort_on_error=1:detect_leaks=0:allocator_may_return_null=1:'
                                    'detect_stack_use_after_return=1:symbolize=1')
        self.env['UBSAN_OPTIONS'] = 'print_stacktrace=1:halt_on_error=1:abort_on_error=1'
        self.env['TSAN_OPTIONS'] = 'halt_on_error=0'
        if env:
            self.env.update(env)
        self.p = None
        self.restarts = 0
        self.calls = 0
        self.last = None

    def _start(self):
        for f in glob.glob(os.path.join(self.scratch, 'san*')):
            os.unlink(f)
        self.p = subprocess.Popen(self.wrapper + [self.exe], stdin=subprocess.PIPE, stdout=subprocess.PIPE,
                                  stderr=subprocess.PIPE, env=self.env, bufsize=0, cwd=self.scratch)

    def close(self):
        if self.p:
            try:
                self.p.kill()
                self.p.wait()
            except Exception:
                pass
            for s in (self.p.stdin, self.p.stdout, self.p.stderr):
                try:
                    s.close()
                except Exception:
                    pass
            self.p = None
        shutil.rmtree(self.scratch, ignore_errors=True)

    def __enter__(self):
        return self

    def __exit__(self, *a):
        self.close()

    def restart(self):
        if self.p:
            try:
                self.p.kill()
                self.p.wait()
            except Exception:
                pass
            for s in (self.p.stdin, self.p.stdout, self.p.stderr):
                try:
                    s.close()
                except Exception:
                    pass
        self.p = None
        self.restarts += 1

    @staticmethod
    def pack(op, fmt=0, ext=0, lang=0, flags=0, args=()):
        body = struct.pack('<IIQIII', op, fmt, ext & 0xFFFFFFFFFFFFFFFF, lang, flags, len(args))
        for a in args:
            if isinstance(a, str):
                a = a.encode('utf-8')
            elif isinstance(a, int):
                a = str(a).encode()
            body += struct.pack('<I', len(a)) + a
        return struct.pack('<I', len(body)) + body

    def _readn(self, n, deadline):
        buf = b''
        fd = self.p.stdout.fileno()
        while len(buf) < n:
            left = deadline - time.time()
            if left <= 0:
                raise Hang(self.timeout)
            r, _, _ = select.select([fd], [], [], min(left, 1.0))
            if not r:
                if self.p.poll() is not None:
                    # drain once more
                    r2, _, _ = select.select([fd], [], [], 0)
                    if not r2:
                        raise EOFError()
                continue
            chunk = os.read(fd, min(1 << 20, n - len(buf)))
            if not chunk:
                raise EOFError()
            buf += chunk
        return buf

    def sample_stack(self):
        """While the worker is (apparently) hung: its innermost distinct /repo/src functions, via gdb."""
        if self.p is None or self.p.poll() is not None:
            return []
        try:
            out = subprocess.run(['gdb', '-q', '-batch', '-p', str(self.p.pid), '-ex', 'bt 400'], stdout=subprocess.PIPE,
                                 stderr=subprocess.DEVNULL, timeout=60).stdout.decode(errors='replace')
        except Exception:
            return []
        order, count = [], {}
        root = os.path.join(_build.REPO, 'src') + os.sep
        for m in re.finditer(r'^#\d+\s+(?:0x[0-9a-f]+ in )?(\S+) \(.*?\) at (\S+):\d+', out, re.M | re.S):
            fn, path = m.group(1), m.group(2)
            if path.startswith(root):
                if fn not in count:
                    order.append(fn)
                count[fn] = count.get(fn, 0) + 1
        rec = sorted(f for f in order if count[f] >= 3)
        # a recursion is named by its cycle, a flat loop by its innermost library functions
        return rec if rec else order[:2]

    def call(self, op, fmt=0, ext=0, lang=0, flags=0, args=(), timeout=None, keep_on_hang=False):
        """Execute one request.  Raises Crash (worker died: sanitizer report, signal, abort) or Hang."""
        if isinstance(op, str):
            op = OP[op]
        if self.p is None or self.p.poll() is not None:
            self._start()
        self.calls += 1
        self.last = (op, fmt, ext, lang, flags, args)
        frame = self.pack(op, fmt, ext, lang, flags, args)
        tmo = timeout or self.timeout
        deadline = time.time() + tmo
        try:
            self.p.stdin.write(frame)
            self.p.stdin.flush()
            hdr = self._readn(4, deadline)
            (n,) = struct.unpack('<I', hdr)
            body = self._readn(n, deadline)
        except Hang:
            if not keep_on_hang:
                self.restart()
            raise Hang(tmo)
        except (EOFError, BrokenPipeError, OSError):
            raise self._crash()
        status, nf = struct.unpack_from('<II', body, 0)
        off = 8
        fields = []
        for _ in range(nf):
            (l,) = struct.unpack_from('<I', body, off)
            off += 4
            fields.append(body[off:off + l])
            off += l
        return Reply(status, fields)

    def _crash(self):
        try:
            rc = self.p.wait(timeout=30)
        except Exception:
            self.p.kill()
            rc = self.p.wait()
        report = ''
        for f in sorted(glob.glob(os.path.join(self.scratch, 'san*'))):
            try:
                report += open(f, errors='replace').read()
            except Exception:
                pass
        try:
            extra = self.p.stderr.read().decode(errors='replace')
        except Exception:
            extra = ''
        if extra:
            report += '\n' + extra
        key = sanitizer_key(report, rc)
        self.restart()
        return Crash(key, report[:20000], rc)


def req_to_json(variant, op, fmt=0, ext=0, lang=0, flags=0, args=()):
    if isinstance(op, str):
        op = OP[op]
    out = []
    for a in args:
        if isinstance(a, str):
            a = a.encode('utf-8')
        elif isinstance(a, int):
            a = str(a).encode()
        out.append(base64.b64encode(a).decode())
    return dict(variant=variant, op=op, fmt=fmt, ext=ext, lang=lang, flags=flags, args_b64=out)


def req_from_json(j):
    return (j['op'], j['fmt'], j['ext'], j['lang'], j['flags'], [base64.b64decode(a) for a in j['args_b64']])


def token_type_names():
    """enum token_types from the public header: value -> name."""
    import re as _re
    src = open(os.path.join(_build.REPO, 'src', 'libMultiMarkdown.h')).read()
    body = src[src.index('enum token_types {'):]
    body = body[:body.index('};')]
    names, v = {}, -1
    for m in _re.finditer(r'^\s*([A-Z_0-9a-z]+)\s*(?:=\s*(\d+))?\s*,', body, _re.M):
        v = int(m.group(2)) if m.group(2) else v + 1
        names[v] = m.group(1)
    return names
