/* enumprobe.c -- C15: print the numeric relations the library's tables assume between the
 * published token kinds.  One "name value" pair per line; props/c15.py judges them. */
#include <stdio.h>
#include "libMultiMarkdown.h"
#include "token_pairs.h"
#include "critic_markup.h"
#include "parser.h"
#include "mmd.h"
#define P(x) printf(#x " %d\n", (int)(x))
int main(void) {
	P(kMaxTokenTypes); P(DOC_START_TOKEN); P(BLOCK_BLOCKQUOTE); P(OBJECT_REPLACEMENT_CHARACTER); P(CM_PLAIN_TEXT);
	P(BLOCK_H1); P(BLOCK_H2); P(BLOCK_H3); P(BLOCK_H4); P(BLOCK_H5); P(BLOCK_H6);
	P(HASH1); P(HASH2); P(HASH3); P(HASH4); P(HASH5); P(HASH6);
	P(MARKER_H1); P(MARKER_H2); P(MARKER_H3); P(MARKER_H4); P(MARKER_H5); P(MARKER_H6);
	P(LINE_ATX_1); P(LINE_ATX_2); P(LINE_ATX_3); P(LINE_ATX_4); P(LINE_ATX_5); P(LINE_ATX_6);
	P(BLOCK_SETEXT_1); P(BLOCK_SETEXT_2); P(MARKER_SETEXT_1); P(MARKER_SETEXT_2); P(LINE_SETEXT_1); P(LINE_SETEXT_2);
	P(sizeof(((token_pair_engine *)0)->can_open_pair) / sizeof(unsigned short));
	P(sizeof(((token_pair_engine *)0)->pair_type) / sizeof(unsigned short));
	return 0;
}
