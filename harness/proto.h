/* Wire protocol shared by the harness programs and lib/drv.py.
 *
 * request : u32 len | u32 op | u32 format | u64 ext | u32 lang | u32 flags | u32 nargs | (u32 alen | bytes)*
 * reply   : u32 len | u32 status | u32 nfields | (u32 flen | bytes)*
 *           the last three fields are always: events text, captured fd-2 bytes, diagnostics text
 */
#ifndef VERIF_PROTO_H
#define VERIF_PROTO_H

enum ops {
	OP_PING = 0,
	OP_CONVERT = 1,        /* flags: family | variant<<4 | dirgiven<<8 ; args: src [, directory, filepath] */
	OP_META = 2,           /* flags: family | sub<<4 (0 has,1 keys,2 value,3 update) ; args: src, key, value */
	OP_CRITIC = 3,         /* flags: 0 accept 1 reject | ranged<<4 ; args: src [, start, len] */
	OP_IMPORT = 4,         /* flags: family | kind<<4 (0 opml, 1 itmz) ; args: src */
	OP_TRANSCLUDE = 5,     /* args: src, search_path, source_path ; flags bit0: manifest via API family (string) */
	OP_WALK = 6,           /* args: src, formats (bytes, one per export) ; flags bit0: substring, args[2],[3] = start,len */
	OP_ENGINE = 7,         /* flags: slot | sub<<4 ; see drv.c */
	OP_XMLRT = 8,          /* args: text -> opml-escaped, unescaped */
	OP_ASSETS = 9,         /* args: src, directory ; convert_to_data via engine + dump asset hash */
	OP_LINEKINDS = 10,     /* args: spec ; batch enumeration, see drv.c */
	OP_HEADFOOT = 11,      /* args: src -> after mmd_prepend_mmd_header + mmd_append_mmd_footer */
	OP_LINETYPES = 12,     /* args: src -> line type per line */
	OP_MANIFEST = 13,      /* flags: family ; args: src, search_path, source_path */
	OP_RESEED = 14,        /* srand(ext) */
	OP_POOL = 15,          /* flags: 0 init 1 drain 2 free 3 stats */
};

enum statuses {
	ST_OK = 0,
	ST_EXIT_CALLED = 1,    /* library called exit(); args of exit in diag */
	ST_BAD_REQUEST = 2,
	ST_PROBE_FAILED = 3,   /* returned object probe failed */
};

#endif
