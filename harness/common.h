/* Shared pieces of the harness programs: event sink, fd-2 capture, tree walker. */
#ifndef VERIF_COMMON_H
#define VERIF_COMMON_H

#define _GNU_SOURCE
#include <stdio.h>
#include <stdlib.h>
#include <string.h>
#include <stdint.h>
#include <stdarg.h>
#include <stdbool.h>
#include <unistd.h>
#include <fcntl.h>
#include <errno.h>
#include <sys/mman.h>

#include "libMultiMarkdown.h"
#include "d_string.h"
#include "token.h"
#include "token_pairs.h"
#include "mmd.h"
#include "stack.h"
#include "verif_hooks.h"

/* ---------------------------------------------------------------- event sink */

#define EV_LOG_MAX 32
static long ev_count[MMD6_EV_MAX + 1];
static long ev_total;
static struct { int kind; long a, b; } ev_log[EV_LOG_MAX];
static int ev_logged;

#ifndef VERIF_CUSTOM_SINK
void mmd6_verif_event(int kind, long a, long b) {
	if (kind > 0 && kind < MMD6_EV_MAX) {
		ev_count[kind]++;
	}
	ev_total++;
	if (ev_logged < EV_LOG_MAX) {
		ev_log[ev_logged].kind = kind;
		ev_log[ev_logged].a = a;
		ev_log[ev_logged].b = b;
		ev_logged++;
	}
}
#ifndef VERIF_CUSTOM_POINT
void mmd6_verif_point(int where) {
	(void) where;
}
#endif
#endif

static void ev_reset(void) {
	memset(ev_count, 0, sizeof(ev_count));
	ev_total = 0;
	ev_logged = 0;
}

/* ---------------------------------------------------------------- tree walker (C15) */

/* Result of one walk.  Every broken invariant is counted per class; the first instance of
 * each class is described in `msg`. */
enum walk_classes {
	WK_CYCLE = 0,      /* node reached twice (not a tree / not finite) */
	WK_RANGE,          /* start+len outside the source (or wraps) */
	WK_ROOT,           /* root does not span the whole parsed range */
	WK_PREV,           /* t->next->prev != t, or first sibling with prev != NULL */
	WK_ORDER,          /* sibling starts decrease */
	WK_MATE,           /* t->mate && t->mate->mate != t */
	WK_TYPE,           /* type >= kMaxTokenTypes */
	WK_TAIL,           /* reported, not judged: head->tail is not the last sibling */
	WK_NCLASS
};
static const char * walk_class_name[WK_NCLASS] = {"cycle", "range", "root", "prev", "order", "mate", "type", "tail"};

typedef struct {
	long count[WK_NCLASS];
	long nodes;
	long maxdepth;
	uint64_t sig;              /* hash of pre-order (depth,type) sequence */
	unsigned char types_seen[kMaxTokenTypes + 32];
	char msg[1024];
	int msglen;
} walk_result;

static int walk_parent_type = -1;
static int walk_prev_type = -1;
static void walk_note(walk_result * r, int cls, token * t, long depth) {
	if (r->count[cls]++ == 0 && r->msglen < (int) sizeof(r->msg) - 100) {
		r->msglen += snprintf(r->msg + r->msglen, sizeof(r->msg) - r->msglen,
							  "%s:type=%d,start=%zu,len=%zu,depth=%ld,parent=%d,prevtype=%d;", walk_class_name[cls],
							  t ? t->type : -1, t ? t->start : 0, t ? t->len : 0, depth, walk_parent_type, walk_prev_type);
	}
}

/* open-addressing pointer set */
typedef struct { void ** slot; size_t cap, n; } ptrset;
static int ptrset_add(ptrset * s, void * p) {
	if ((s->n + 1) * 2 > s->cap) {
		size_t ncap = s->cap ? s->cap * 2 : 1024;
		void ** ns = calloc(ncap, sizeof(void *));
		for (size_t i = 0; i < s->cap; ++i) if (s->slot[i]) {
				size_t h = ((uintptr_t) s->slot[i] >> 4) * 0x9E3779B97F4A7C15ull % ncap;
				while (ns[h]) h = (h + 1) % ncap;
				ns[h] = s->slot[i];
			}
		free(s->slot);
		s->slot = ns;
		s->cap = ncap;
	}
	size_t h = ((uintptr_t) p >> 4) * 0x9E3779B97F4A7C15ull % s->cap;
	while (s->slot[h]) {
		if (s->slot[h] == p) return 0;
		h = (h + 1) % s->cap;
	}
	s->slot[h] = p;
	s->n++;
	return 1;
}

/* Iterative walk.  range_start/range_len: what was handed to the parser; srclen: strlen(source). */
static void walk_tree(token * root, size_t range_start, size_t range_len, size_t srclen, walk_result * r) {
	memset(r, 0, sizeof(*r));
	r->sig = 1469598103934665603ull;
	walk_parent_type = -1;
	if (!root) return;

	ptrset seen = {0};
	size_t cap = 1024, sp = 0;
	struct fr { token * t; long depth; int ptype; } * st = malloc(cap * sizeof(*st));
	long limit = (long) srclen * 8 + 100000;

	if (root->start != range_start || root->len != range_len) {
		/* report the type of the last top-level block as "parent" so the failing construct is named */
		token * lc = root->child;
		long guard = 0;
		while (lc && lc->next && guard++ < 10000000) lc = lc->next;
		walk_parent_type = lc ? lc->type : -1;
		walk_note(r, WK_ROOT, root, 0);
		walk_parent_type = -1;
	}
	if (root->prev) walk_note(r, WK_PREV, root, 0);

	walk_parent_type = -1;
	st[sp].t = root; st[sp].depth = 0; st[sp].ptype = -1; sp++;
	while (sp) {
		token * head = st[--sp].t;
		long depth = st[sp].depth;
		walk_parent_type = st[sp].ptype;
		/* iterate the sibling chain starting at head */
		token * prev = NULL;
		token * last = NULL;
		for (token * t = head; t; t = t->next) {
			if (!ptrset_add(&seen, t)) { walk_note(r, WK_CYCLE, t, depth); break; }
			if (++r->nodes > limit) { walk_note(r, WK_CYCLE, t, depth); goto done; }
			if (depth > r->maxdepth) r->maxdepth = depth;
			r->sig = (r->sig ^ (uint64_t)(depth * 1315423911u + t->type)) * 1099511628211ull;
			if (t->type < kMaxTokenTypes + 32) r->types_seen[t->type] = 1;
			if (t->type >= kMaxTokenTypes) walk_note(r, WK_TYPE, t, depth);
			if (t->start > srclen || t->len > srclen || t->start + t->len > srclen) walk_note(r, WK_RANGE, t, depth);
			if (t->prev != prev) walk_note(r, WK_PREV, t, depth);
			walk_prev_type = prev ? prev->type : -1;
			if (prev && t->start < prev->start) walk_note(r, WK_ORDER, t, depth);
			if (t->mate && t->mate->mate != t) walk_note(r, WK_MATE, t, depth);
			if (t->child) {
				if (sp == cap) { cap *= 2; st = realloc(st, cap * sizeof(*st)); }
				st[sp].t = t->child; st[sp].depth = depth + 1; st[sp].ptype = t->type; sp++;
			}
			prev = t;
			last = t;
		}
		if (head->tail != last && last) walk_note(r, WK_TAIL, head, depth);
	}
done:
	free(st);
	free(seen.slot);
}

#endif
