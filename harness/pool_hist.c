/* pool_hist.c -- C18: well-bracketed histories over the shared token pool (ASan build, pool on).
 *
 * usage: pool_hist <docsfile> [measure]
 *   docsfile: u32 ndocs, (u32 len, bytes)*
 *   stdin: one history per line, tokens separated by blanks:
 *          I  D  F  C<doc>  P<doc>  X<slot>        (P keeps the engine in the next free slot)
 * stdout: "SEQ n" before each history (flushed), "BAD n <class> <detail>" for every broken expectation,
 *         "DONE histories calls bad"
 *  with 'measure': prints "TOKENS doc count" (tokens a parse of each document allocates) and exits.
 */
#include "common.h"
size_t __sanitizer_get_current_allocated_bytes(void);   /* ASan runtime */

void mmd6_verif_pool_stats(long * uses, long * slabs, long * used_in_last, long * exists);

typedef struct { char * p; size_t len; } doc_t;
static doc_t * docs;
static uint32_t ndocs;
static char ** ref;           /* reference HTML per document (first conversion in this process, in its own bracket) */

static long seqno, nbad, ncalls;
static void bad(const char * cls, const char * fmt, ...) {
	char buf[400];
	va_list ap; va_start(ap, fmt); vsnprintf(buf, sizeof(buf), fmt, ap); va_end(ap);
	printf("BAD %ld %s %s\n", seqno, cls, buf);
	fflush(stdout);
	nbad++;
}

#define EXTS (EXT_SMART | EXT_NOTES | EXT_CRITIC)

static char * convert(uint32_t d) {
	return mmd_string_convert(docs[d].p, EXTS, FORMAT_HTML, 0);
}

#define NSLOT 8
static struct { mmd_engine * e; uint32_t doc; int depth; uint64_t sig; long nodes; } slot[NSLOT];

int main(int argc, char ** argv) {
	if (argc < 2) return 2;
	static char obuf[1 << 16], ibuf[1 << 16];
	setvbuf(stdout, obuf, _IOFBF, sizeof(obuf));      /* no heap traffic from stdio while we count allocated bytes */
	setvbuf(stdin, ibuf, _IOFBF, sizeof(ibuf));
	FILE * f = fopen(argv[1], "rb");
	if (!f || fread(&ndocs, 4, 1, f) != 1) return 2;
	docs = calloc(ndocs, sizeof(doc_t));
	for (uint32_t i = 0; i < ndocs; ++i) {
		uint32_t l;
		if (fread(&l, 4, 1, f) != 1) return 2;
		docs[i].p = malloc(l + 1);
		if (l && fread(docs[i].p, 1, l, f) != l) return 2;
		docs[i].p[l] = 0;
		docs[i].len = l;
	}
	fclose(f);
	long u, s, l, x;
	if (argc > 2) {
		for (uint32_t d = 0; d < ndocs; ++d) {
			token_pool_init();
			mmd_engine * e = mmd_engine_create_with_string(docs[d].p, EXTS);
			mmd_engine_parse_string(e);
			mmd6_verif_pool_stats(&u, &s, &l, &x);
			printf("TOKENS %u %ld\n", d, (s - 1) * 1024 + l);
			mmd_engine_free(e, true);
			token_pool_drain();
			token_pool_free();
		}
		return 0;
	}
	ref = calloc(ndocs, sizeof(char *));
	for (uint32_t d = 0; d < ndocs; ++d) {
		token_pool_init();
		ref[d] = convert(d);
		token_pool_drain();
		token_pool_free();
	}
	size_t baseline = __sanitizer_get_current_allocated_bytes();
	size_t drained_level = 0;        /* allocated bytes after an outermost drain (pool bookkeeping only), learnt once */

	char line[4096];
	long nseq = 0;
	while (fgets(line, sizeof(line), stdin)) {
		seqno = nseq++;
		printf("SEQ %ld\n", seqno);
		fflush(stdout);
		int depth = 0;
		int pool_exists = 0;
		long slabs_before = 0;
		for (char * tok = strtok(line, " \n"); tok; tok = strtok(NULL, " \n")) {
			ncalls++;
			switch (tok[0]) {
				case 'I':
					token_pool_init();
					depth++;
					mmd6_verif_pool_stats(&u, &s, &l, &x);
					if (u != depth) bad("uses", "after I: uses=%ld depth=%d", u, depth);
					if (!x) bad("exists", "after I the pool does not exist");
					if (!pool_exists) {
						if (s != 1 || l != 0) bad("fresh-pool", "first I after free: slabs=%ld used=%ld (expected one empty slab)", s, l);
						pool_exists = 1;
					}
					break;
				case 'D':
					mmd6_verif_pool_stats(&u, &slabs_before, &l, &x);
					token_pool_drain();
					depth--;
					mmd6_verif_pool_stats(&u, &s, &l, &x);
					if (u != depth) bad("uses", "after D: uses=%ld depth=%d", u, depth);
					if (depth > 0 && s != slabs_before) bad("inner-drain-freed", "inner D changed the slab count %ld -> %ld at depth %d", slabs_before, s, depth);
					if (depth == 0) {
						if (s != 0) bad("outer-drain-kept", "outermost D left %ld slabs", s);
						size_t now = __sanitizer_get_current_allocated_bytes();
						if (!drained_level) drained_level = now;
						else if (now != drained_level) bad("memory-not-released", "allocated bytes after the outermost D: %zu, after the first one: %zu", now, drained_level);
					}
					break;
				case 'F':
					token_pool_free();
					mmd6_verif_pool_stats(&u, &s, &l, &x);
					if (x) bad("free-kept", "after F the pool still exists");
					pool_exists = 0;
					{
						size_t now = __sanitizer_get_current_allocated_bytes();
						if (now != baseline) bad("memory-not-released", "allocated bytes after F: %zu, before the first I: %zu", now, baseline);
					}
					break;
				case 'C': {
					uint32_t d = atoi(tok + 1) % ndocs;
					char * o = convert(d);
					if (!o || strcmp(o, ref[d]) != 0) bad("output-differs", "conversion of document %u at depth %d differs from its first conversion", d, depth);
					free(o);
					break;
				}
				case 'P': {
					uint32_t d = atoi(tok + 1) % ndocs;
					int k = 0;
					while (k < NSLOT && slot[k].e) k++;
					if (k == NSLOT) break;
					slot[k].e = mmd_engine_create_with_string(docs[d].p, EXTS);
					mmd_engine_parse_string(slot[k].e);
					slot[k].doc = d;
					slot[k].depth = depth;
					walk_result w;
					walk_tree(mmd_engine_root(slot[k].e), 0, docs[d].len, docs[d].len, &w);
					slot[k].sig = w.sig;
					slot[k].nodes = w.nodes;
					break;
				}
				case 'X': {
					int k = atoi(tok + 1) % NSLOT;
					if (!slot[k].e) break;
					/* tokens must still be valid: walk the kept tree (ASan faults on freed slabs), compare its shape, export it */
					walk_result w;
					uint32_t d = slot[k].doc;
					walk_tree(mmd_engine_root(slot[k].e), 0, docs[d].len, docs[d].len, &w);
					if (w.sig != slot[k].sig || w.nodes != slot[k].nodes) bad("kept-tree-changed", "tree of document %u kept since depth %d changed (nodes %ld -> %ld)", d, slot[k].depth, slot[k].nodes, w.nodes);
					for (int c = 0; c < WK_TAIL; ++c) if (w.count[c]) { bad("kept-tree-broken", "%s", w.msg); break; }
					DString * out = d_string_new("");
					mmd_engine_export_token_tree(out, slot[k].e, FORMAT_HTML);
					d_string_append_c(out, '\n');
					if (strcmp(out->str, ref[d]) != 0) bad("kept-export-differs", "export of the kept tree of document %u differs from its first conversion", d);
					d_string_free(out, true);
					mmd_engine_free(slot[k].e, true);
					slot[k].e = NULL;
					break;
				}
			}
		}
		if (depth != 0 || pool_exists) bad("harness", "history did not end freed (depth %d)", depth);
	}
	printf("DONE %ld %ld %ld\n", nseq, ncalls, nbad);
	return 0;
}
