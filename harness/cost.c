/* cost.c -- C07: one conversion per process, measured.
 *
 * usage: cost <format> <extensions> [repeat]      (source on stdin)
 * With the `cov` build (library compiled with -fsanitize-coverage=trace-pc) the callback below counts
 * executed basic blocks (exact and repeatable) and records the lowest stack address reached.
 * stdout: "BLOCKS n STACK bytes OUTLEN m INLEN k"
 * The caller sets RLIMIT_STACK; a crash is reported by the exit status.
 */
#define VERIF_CUSTOM_SINK
#include "common.h"
#include <sys/resource.h>
void mmd_critic_markup_accept(DString * d);
void mmd_critic_markup_reject(DString * d);

void mmd6_verif_event(int kind, long a, long b) { (void) kind; (void) a; (void) b; }
void mmd6_verif_point(int where) { (void) where; }

static unsigned long long blocks;
static uintptr_t stack_low = (uintptr_t) -1;
static int counting;

void __sanitizer_cov_trace_pc(void) {
	if (counting) {
		blocks++;
		uintptr_t sp = (uintptr_t) __builtin_frame_address(0);
		if (sp < stack_low) stack_low = sp;
	}
}

int main(int argc, char ** argv) {
	if (argc < 3) return 2;
	short fmt = atoi(argv[1]);
	unsigned long ext = strtoul(argv[2], NULL, 0);
	if (argc > 3) {
		struct rlimit rl = {atol(argv[3]), atol(argv[3])};
		setrlimit(RLIMIT_STACK, &rl);        /* informational: the main thread's stack was sized at exec, the caller uses ulimit */
	}
	DString * src = d_string_new("");
	char buf[65536];
	size_t n;
	while ((n = fread(buf, 1, sizeof(buf), stdin)) > 0) d_string_append_c_array(src, buf, n);
#ifdef kUseObjectPool
	token_pool_init();
#endif
	uintptr_t base = (uintptr_t) __builtin_frame_address(0);
	counting = 1;
	/* as the command line tool does for -a / -r: the text-level CriticMarkup pass runs first */
	if (ext & EXT_CRITIC_ACCEPT) mmd_critic_markup_accept(src);
	if (ext & EXT_CRITIC_REJECT) mmd_critic_markup_reject(src);
	DString * out = mmd_d_string_convert_to_data(src, ext, fmt, 0, NULL);
	counting = 0;
	size_t outlen = out ? out->currentStringLength : 0;
	printf("BLOCKS %llu STACK %lu OUTLEN %zu INLEN %zu\n", blocks, stack_low == (uintptr_t) -1 ? 0ul : (unsigned long)(base - stack_low), outlen, src->currentStringLength);
	fflush(stdout);
	if (out) d_string_free(out, true);
	d_string_free(src, true);
#ifdef kUseObjectPool
	token_pool_drain();
	token_pool_free();
#endif
	return 0;
}
