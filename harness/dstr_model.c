/* dstr_model.c -- C19: random DString operation sequences compared with an ideal byte-vector model
 * after every operation.
 *
 * usage: dstr_model <seed> <first> <count> <band:0|1> [verbose]
 *   sequence number n uses PRNG state f(seed, n); "band" adds lengths in [(size_t)-64,(size_t)-2].
 * stdout: "BEGIN n" before each sequence (flushed), "MISMATCH n <class> <detail>" for each divergence,
 *         "DONE sequences ops mismatches distinctsig" at the end, "OPS name count ..." summary.
 */
#define _GNU_SOURCE
#include <stdio.h>
#include <stdlib.h>
#include <string.h>
#include <stdint.h>
#include <stdbool.h>
#include <stdarg.h>
#include <sys/types.h>
#include "d_string.h"

/* ---------------------------------------------------------------- PRNG (splitmix64) */
static uint64_t rs;
static uint64_t rnd(void) {
	uint64_t z = (rs += 0x9E3779B97F4A7C15ull);
	z = (z ^ (z >> 30)) * 0xBF58476D1CE4E5B9ull;
	z = (z ^ (z >> 27)) * 0x94D049BB133111EBull;
	return z ^ (z >> 31);
}
static size_t rn(size_t n) { return n ? rnd() % n : 0; }

/* ---------------------------------------------------------------- model */
static unsigned char * m;
static size_t mlen, mcap;
static void m_reserve(size_t n) { if (n + 1 > mcap) { mcap = (n + 1) * 2; m = realloc(m, mcap); } }
static void m_insert(size_t pos, const void * p, size_t n) {
	if (pos > mlen) pos = mlen;
	m_reserve(mlen + n);
	memmove(m + pos + n, m + pos, mlen - pos);
	memcpy(m + pos, p, n);
	mlen += n;
	m[mlen] = 0;
}
static void m_erase(size_t pos, size_t n) {      /* n already clamped */
	memmove(m + pos, m + pos + n, mlen - pos - n);
	mlen -= n;
	m[mlen] = 0;
}
static int m_has_nul(void) { return memchr(m, 0, mlen) != NULL; }

/* ---------------------------------------------------------------- argument pools */
static const size_t SIZES[] = {0, 1, 2, 3, 7, 1022, 1023, 1024, 1025, 1026, 2046, 2047, 2048, 2049, 2050, 4095, 4096, 4097, 65536};
#define NSIZES (sizeof(SIZES)/sizeof(SIZES[0]))
static char * big;        /* 70000 bytes of patterned text, no NULs */
static char * bigbin;     /* same with NULs sprinkled */

static size_t pick_pos(void) {
	size_t L = mlen;
	switch (rn(9)) {
		case 0: return 0;
		case 1: return 1;
		case 2: return L ? L - 1 : 0;
		case 3: return L;
		case 4: return L + 1;
		case 5: return 2 * L;
		case 6: return (size_t) - 1;
		case 7: return rn(L + 1);
		default: return rn(L + 3);
	}
}
static int band;
static size_t pick_len(void) {
	size_t L = mlen;
	int k = rn(band ? 12 : 9);
	switch (k) {
		case 0: return 0;
		case 1: return 1;
		case 2: return L ? L - 1 : 0;
		case 3: return L;
		case 4: return L + 1;
		case 5: return 2 * L;
		case 6: return (size_t) - 1;
		case 7: return rn(L + 1);
		case 8: return rn(8);
		default: return (size_t) - 2 - rn(63);      /* overflow band */
	}
}
static size_t pick_size(void) {
	if (rn(3) == 0) return SIZES[rn(NSIZES)];
	return rn(12);
}

static const char * WORDS[] = {"foo", "bar", "a", "", "zapz", "foofoo", "o", "\xc3\xa0", "ab", "ba", "aa", "x\xe2\x82\xacy"};
#define NWORDS (sizeof(WORDS)/sizeof(WORDS[0]))

static long seqno;
static long mism;
static int verbose;
static long opcount[16];
static const char * OPN[] = {"append", "append_c", "append_c_array", "append_printf", "prepend", "insert", "insert_c", "insert_c_array",
							 "insert_printf", "erase", "copy_substring", "replace_text_in_range", "new"};

static void mismatch(const char * cls, const char * fmt, ...) {
	va_list ap;
	char buf[512];
	va_start(ap, fmt);
	vsnprintf(buf, sizeof(buf), fmt, ap);
	va_end(ap);
	printf("MISMATCH %ld %s %s\n", seqno, cls, buf);
	fflush(stdout);
	mism++;
}

static int check(DString * d, const char * op) {
	int bad = 0;
	if (d->currentStringLength != mlen) { mismatch(op, "length %zu model %zu", d->currentStringLength, mlen); bad = 1; }
	if (d->currentStringBufferSize <= d->currentStringLength) { mismatch(op, "capacity %zu <= length %zu", d->currentStringBufferSize, d->currentStringLength); bad = 1; }
	if (!bad) {
		if (d->str[d->currentStringLength] != 0) { mismatch(op, "not NUL-terminated at %zu", d->currentStringLength); bad = 1; }
		if (memcmp(d->str, m, mlen) != 0) {
			size_t i = 0;
			while (i < mlen && (unsigned char) d->str[i] == m[i]) i++;
			mismatch(op, "content differs at %zu of %zu (got %02x want %02x)", i, mlen, (unsigned char) d->str[i], m[i]);
			bad = 1;
		}
		/* touch the last byte of the recorded capacity: ASan faults if it overstates the allocation */
		volatile char c = d->str[d->currentStringBufferSize - 1];
		(void) c;
	}
	return bad;
}

static void run_sequence(uint64_t seed, long n) {
	rs = seed * 0x100000001B3ull + (uint64_t) n * 0x9E3779B97F4A7C15ull + 12345;
	rnd();
	seqno = n;
	size_t isz = pick_size();
	char * init = malloc(isz + 1);
	memcpy(init, big + rn(100), isz);
	init[isz] = 0;
	DString * d = d_string_new(rn(10) == 0 ? NULL : init);
	mlen = 0; m_reserve(16); m[0] = 0;
	if (d && !(d->currentStringLength == 0 && isz)) m_insert(0, init, isz);
	if (d && d->currentStringLength == 0) { mlen = 0; m[0] = 0; }      /* d_string_new(NULL) */
	free(init);
	opcount[12]++;
	if (verbose) printf("  new(%zu) -> len %zu\n", isz, d->currentStringLength);
	if (check(d, "new")) goto out;
	int nops = 1 + rn(40);
	for (int i = 0; i < nops; ++i) {
		int op = rn(12);
		size_t pos = pick_pos(), len = pick_len(), sz = pick_size();
		const char * w = WORDS[rn(NWORDS)];
		char tmp[128];
		const char * src;
		int usenull = rn(25) == 0;
		if ((op == 10 || op == 11) && m_has_nul()) op = 9;          /* C-string semantics undefined with embedded NULs */
		opcount[op]++;
		switch (op) {
			case 0: /* append */
				src = sz > 12 ? big + rn(50) : w;
				{
					char * s = strndup(src, sz > 12 ? sz : strlen(w));
					if (verbose) printf("  append(len %zu)%s\n", strlen(s), usenull ? " NULL" : ""), fflush(stdout);
					d_string_append(d, usenull ? NULL : s);
					if (!usenull) m_insert(mlen, s, strlen(s));
					free(s);
				}
				break;
			case 1: { /* append_c */
				char c = rn(8) == 0 ? 0 : (char)(1 + rn(255));
				if (verbose) printf("  append_c(%d)\n", c), fflush(stdout);
				d_string_append_c(d, c);
				if (c) m_insert(mlen, &c, 1);
				break;
			}
			case 2: { /* append_c_array */
				int bin = rn(3) == 0;
				src = (bin ? bigbin : big) + rn(50);
				size_t nb = rn(6) == 0 ? (size_t) - 1 : sz;
				if (verbose) printf("  append_c_array(%s, %zd)%s\n", bin ? "bin" : "text", (ssize_t) nb, usenull ? " NULL" : ""), fflush(stdout);
				if (nb == (size_t) - 1) {
					char * s = strndup(big + rn(50), rn(40));
					d_string_append_c_array(d, usenull ? NULL : s, nb);
					if (!usenull) m_insert(mlen, s, strlen(s));
					free(s);
				} else {
					d_string_append_c_array(d, usenull ? NULL : src, nb);
					if (!usenull) m_insert(mlen, src, nb);
				}
				break;
			}
			case 3: { /* append_printf */
				int a = (int) rn(100000) - 500;
				if (verbose) printf("  append_printf(%%dbar%%s, %d, %s)\n", a, w), fflush(stdout);
				if (usenull) { d_string_append_printf(d, NULL); break; }
				d_string_append_printf(d, "%dbar%s|%5.2f", a, w, a / 7.0);
				snprintf(tmp, sizeof(tmp), "%dbar%s|%5.2f", a, w, a / 7.0);
				m_insert(mlen, tmp, strlen(tmp));
				break;
			}
			case 4: { /* prepend */
				char * s = strndup(sz > 12 ? big + rn(50) : w, sz > 12 ? sz : strlen(w));
				if (verbose) printf("  prepend(len %zu)\n", strlen(s)), fflush(stdout);
				d_string_prepend(d, usenull ? NULL : s);
				if (!usenull) m_insert(0, s, strlen(s));
				free(s);
				break;
			}
			case 5: { /* insert */
				char * s = strndup(sz > 12 ? big + rn(50) : w, sz > 12 ? sz : strlen(w));
				if (verbose) printf("  insert(%zd, len %zu)\n", (ssize_t) pos, strlen(s)), fflush(stdout);
				d_string_insert(d, pos, usenull ? NULL : s);
				if (!usenull) m_insert(pos, s, strlen(s));
				free(s);
				break;
			}
			case 6: { /* insert_c */
				char c = rn(8) == 0 ? 0 : (char)(1 + rn(255));
				if (verbose) printf("  insert_c(%zd, %d)\n", (ssize_t) pos, c), fflush(stdout);
				d_string_insert_c(d, pos, c);
				if (c) m_insert(pos, &c, 1);
				break;
			}
			case 7: { /* insert_c_array */
				int bin = rn(3) == 0;
				src = (bin ? bigbin : big) + rn(50);
				size_t nb = rn(6) == 0 ? (size_t) - 1 : sz;
				if (verbose) printf("  insert_c_array(%zd, %s, %zd)\n", (ssize_t) pos, bin ? "bin" : "text", (ssize_t) nb), fflush(stdout);
				if (nb == (size_t) - 1) {
					char * s = strndup(big + rn(50), rn(40));
					d_string_insert_c_array(d, pos, usenull ? NULL : s, nb);
					if (!usenull) m_insert(pos, s, strlen(s));
					free(s);
				} else {
					d_string_insert_c_array(d, pos, usenull ? NULL : src, nb);
					if (!usenull) m_insert(pos, src, nb);
				}
				break;
			}
			case 8: { /* insert_printf */
				int a = (int) rn(100000) - 500;
				if (verbose) printf("  insert_printf(%zd, ...)\n", (ssize_t) pos), fflush(stdout);
				if (usenull) { d_string_insert_printf(d, pos, NULL); break; }
				d_string_insert_printf(d, pos, "%s:%d", w, a);
				snprintf(tmp, sizeof(tmp), "%s:%d", w, a);
				m_insert(pos, tmp, strlen(tmp));
				break;
			}
			case 9: { /* erase */
				if (verbose) printf("  erase(%zd, %zd) on len %zu\n", (ssize_t) pos, (ssize_t) len, mlen), fflush(stdout);
				d_string_erase(d, pos, len);
				if (pos <= mlen && len != 0) {
					size_t room = mlen - pos;
					m_erase(pos, (len == (size_t) - 1 || len >= room) ? room : len);
				}
				break;
			}
			case 10: { /* copy_substring */
				if (verbose) printf("  copy_substring(%zd, %zd) on len %zu\n", (ssize_t) pos, (ssize_t) len, mlen), fflush(stdout);
				char * r = d_string_copy_substring(d, pos, len);
				/* model */
				int isnull = 0;
				size_t n = 0;
				if (pos > mlen) isnull = 1;
				else if (len == (size_t) - 1) n = mlen - pos;
				else if (len > mlen - pos) isnull = 1;
				else n = len;
				if (isnull != (r == NULL)) mismatch("copy_substring", "returned %s, model %s (start %zd len %zd of %zu)", r ? "string" : "NULL", isnull ? "NULL" : "string", (ssize_t) pos, (ssize_t) len, mlen);
				else if (r && (strlen(r) != n || memcmp(r, m + pos, n) != 0)) mismatch("copy_substring", "content differs (start %zd len %zd of %zu)", (ssize_t) pos, (ssize_t) len, mlen);
				free(r);
				break;
			}
			case 11: { /* replace_text_in_range */
				const char * orig = WORDS[rn(NWORDS)];
				const char * repl = WORDS[rn(NWORDS)];
				if (!*orig) orig = "o";          /* empty search string: outside the domain */
				if (verbose) printf("  replace(%zd, %zd, '%s', '%s') on len %zu\n", (ssize_t) pos, (ssize_t) len, orig, repl, mlen), fflush(stdout);
				long delta = d_string_replace_text_in_range(d, pos, len, usenull ? NULL : orig, repl);
				long md = 0;
				if (!usenull && pos <= mlen) {
					size_t lo = strlen(orig), lr = strlen(repl);
					size_t stop = (len == (size_t) - 1 || len >= mlen - pos) ? mlen : pos + len;
					size_t i = pos;
					while (i + lo <= mlen) {
						unsigned char * f = memmem(m + i, mlen - i, orig, lo);
						if (!f || (size_t)(f - m) >= stop) break;
						size_t at = f - m;
						m_erase(at, lo);
						m_insert(at, repl, lr);
						md += (long) lr - (long) lo;
						stop += lr; stop -= lo;
						i = at + lr;
					}
				}
				if (delta != md) mismatch("replace_text_in_range", "returned delta %ld, model %ld", delta, md);
				break;
			}
		}
		if (check(d, OPN[op])) break;
	}
out:
	d_string_free(d, true);
}

int main(int argc, char ** argv) {
	if (argc < 5) { fprintf(stderr, "usage\n"); return 2; }
	uint64_t seed = strtoull(argv[1], NULL, 10);
	long first = atol(argv[2]), count = atol(argv[3]);
	band = atoi(argv[4]);
	verbose = argc > 5;
	big = malloc(70200); bigbin = malloc(70200);
	for (int i = 0; i < 70200; ++i) {
		big[i] = "foo bar zapz o\xc3\xa0 ab"[i % 19];
		bigbin[i] = (i % 37 == 5 || i % 101 == 0) ? 0 : big[i];
	}
	big[70199] = 0;
	long ops = 0;
	for (long n = first; n < first + count; ++n) {
		printf("BEGIN %ld\n", n);
		fflush(stdout);
		run_sequence(seed, n);
	}
	for (int i = 0; i < 13; ++i) ops += opcount[i];
	printf("DONE %ld %ld %ld\n", count, ops, mism);
	printf("OPS");
	for (int i = 0; i < 13; ++i) printf(" %s=%ld", OPN[i], opcount[i]);
	printf("\n");
	return 0;
}
