/* drv.c -- long-lived worker that executes requests against libMultiMarkdown.
 *
 * One request at a time on stdin, one reply on stdout (see proto.h).  fd 2 is redirected to a
 * memfd that is rewound per request, so everything the library prints is returned to the
 * monitor.  exit() from library code is wrapped and turned into status ST_EXIT_CALLED.
 * Sanitizer reports go wherever ASAN_OPTIONS/UBSAN_OPTIONS log_path points.
 */
#include "common.h"
#include "proto.h"
#include <setjmp.h>
#include <sys/stat.h>
#include "transclude.h"
#include "critic_markup.h"
#include "xml.h"
#include "parser.h"
#include "uthash.h"

#ifdef kUseObjectPool
void mmd6_verif_pool_stats(long * uses, long * slabs, long * used_in_last, long * exists);
#define POOL_INIT()  token_pool_init()
#define POOL_DRAIN() token_pool_drain()
#define POOL_FREE()  token_pool_free()
#else
#define POOL_INIT()  ((void)0)
#define POOL_DRAIN() ((void)0)
#define POOL_FREE()  ((void)0)
#endif

void mmd_print_source_opml(DString * out, const char * source, size_t start, size_t len);
token * mmd_tokenize_string(mmd_engine * e, size_t start, size_t len, bool stop_on_empty_line);

/* ------------------------------------------------------------------ framing */

static int in_fd = 0, out_fd = 1;
static int errfd = -1;		/* memfd standing in for fd 2 */
static int real_err = -1;

static void xread(void * buf, size_t n) {
	char * p = buf;
	while (n) {
		ssize_t k = read(in_fd, p, n);
		if (k <= 0) { if (k < 0 && errno == EINTR) continue; _exit(0); }
		p += k; n -= k;
	}
}
static void xwrite(const void * buf, size_t n) {
	const char * p = buf;
	while (n) {
		ssize_t k = write(out_fd, p, n);
		if (k <= 0) { if (k < 0 && errno == EINTR) continue; _exit(0); }
		p += k; n -= k;
	}
}

typedef struct { char * p; size_t len; } arg_t;
#define MAXARGS 16
static struct {
	uint32_t op, format, lang, flags, nargs;
	uint64_t ext;
	arg_t a[MAXARGS];
	char * raw;
} rq;

static DString * reply;
static uint32_t nfields;

static void field(const void * p, size_t n) {
	uint32_t l = (uint32_t) n;
	d_string_append_c_array(reply, (const char *) &l, 4);
	if (n) d_string_append_c_array(reply, p, n);
	nfields++;
}
static void field_str(const char * s) { field(s ? s : "", s ? strlen(s) : 0); }
static void field_fmt(const char * fmt, ...) {
	char buf[4096];
	va_list ap; va_start(ap, fmt);
	int n = vsnprintf(buf, sizeof(buf), fmt, ap);
	va_end(ap);
	if (n < 0) n = 0;
	if (n >= (int) sizeof(buf)) n = sizeof(buf) - 1;
	field(buf, n);
}

/* ------------------------------------------------------------------ exit wrap */

static jmp_buf exit_jmp;
static volatile int in_request = 0;
static volatile int exit_status = 0;
void __real_exit(int);
void __wrap_exit(int status) {
	if (in_request) {
		exit_status = status;
		in_request = 2;
		longjmp(exit_jmp, 1);
	}
	__real_exit(status);
}

/* ------------------------------------------------------------------ diag / probe */

static char diag[8192];
static int diaglen;
static uint32_t status;
static void diagf(const char * fmt, ...) {
	if (diaglen > (int) sizeof(diag) - 300) return;
	va_list ap; va_start(ap, fmt);
	int n = vsnprintf(diag + diaglen, sizeof(diag) - diaglen, fmt, ap);
	va_end(ap);
	if (n > 0) diaglen += n;
	if (diaglen >= (int) sizeof(diag)) diaglen = sizeof(diag) - 1;
}

/* Returned-object probe: a DString handed back by the API must be NUL-terminated at its
 * recorded length and its recorded capacity must not overstate the real allocation (ASan
 * faults on the touch if it does). */
static void probe_dstring(DString * d, const char * what) {
	if (!d) return;
	if (!d->str) { diagf("probe:%s:null-str;", what); status = ST_PROBE_FAILED; return; }
	if (d->currentStringLength >= d->currentStringBufferSize) {
		/* capacity understated (zip results are handed over this way): harmless for later
		 * appends (realloc grows from the recorded size), so noted but not judged */
		diagf("note:%s:cap-understated;", what);
		return;
	}
	volatile char c = d->str[d->currentStringLength];
	if (c != 0) { diagf("probe:%s:not-terminated;", what); status = ST_PROBE_FAILED; }
	volatile char e = d->str[d->currentStringBufferSize - 1];
	(void) e;
}

static DString * dstr_from(arg_t a) {
	DString * d = d_string_new("");
	d_string_append_c_array(d, a.p, a.len);
	return d;
}

static size_t arg_num(arg_t a) { return (size_t) strtoull(a.p, NULL, 10); }

/* ------------------------------------------------------------------ ops */

static void snapshot_check(const char * before, size_t blen, const char * after, size_t alen, const char * what) {
	if (blen != alen || memcmp(before, after, blen) != 0) {
		diagf("srcmod:%s;", what);
	}
}

/* zip results are handed over as (pointer,length) blobs inside a DString shell; the string
 * invariants (termination, capacity) are not promised for them and are not probed */
static int is_binary_format(int f) {
	return f == FORMAT_EPUB || f == FORMAT_ODT || f == FORMAT_TEXTBUNDLE || f == FORMAT_TEXTBUNDLE_COMPRESSED || f == FORMAT_ITMZ;
}

static void op_convert(void) {
	int family = rq.flags & 15, variant = (rq.flags >> 4) & 15, dirgiven = (rq.flags >> 8) & 1;
	const char * dir = dirgiven ? rq.a[1].p : NULL;
	const char * path = rq.nargs > 2 ? rq.a[2].p : NULL;
	char * snap = malloc(rq.a[0].len + 1);
	memcpy(snap, rq.a[0].p, rq.a[0].len + 1);
	DString * d = NULL;
	mmd_engine * e = NULL;
	char * cres = NULL;
	DString * dres = NULL;

	if (family == 1) d = dstr_from(rq.a[0]);
	if (family == 2) {
		e = mmd_engine_create_with_string(rq.a[0].p, rq.ext);
		mmd_engine_set_language(e, rq.lang);
	}

	switch (variant) {
		case 0:
			if (family == 0) cres = mmd_string_convert(rq.a[0].p, rq.ext, rq.format, rq.lang);
			else if (family == 1) cres = mmd_d_string_convert(d, rq.ext, rq.format, rq.lang);
			else cres = mmd_engine_convert(e, rq.format);
			field_str(cres);
			free(cres);
			break;
		case 1:
			if (family == 0) dres = mmd_string_convert_to_data(rq.a[0].p, rq.ext, rq.format, rq.lang, dir);
			else if (family == 1) dres = mmd_d_string_convert_to_data(d, rq.ext, rq.format, rq.lang, dir);
			else dres = mmd_engine_convert_to_data(e, rq.format, dir);
			if (!is_binary_format(rq.format)) probe_dstring(dres, "to_data");
			if (dres) { field(dres->str, dres->currentStringLength); d_string_free(dres, true); }
			else { field("", 0); diagf("null-result;"); }
			break;
		case 2:
			if (family == 0) mmd_string_convert_to_file(rq.a[0].p, rq.ext, rq.format, rq.lang, dir, path);
			else if (family == 1) mmd_d_string_convert_to_file(d, rq.ext, rq.format, rq.lang, dir, path);
			else mmd_engine_convert_to_file(e, rq.format, dir, path);
			field("", 0);
			break;
		default:
			status = ST_BAD_REQUEST;
	}

	if (family == 0) snapshot_check(snap, rq.a[0].len, rq.a[0].p, rq.a[0].len, "cstring");
	if (family == 1) {
		if (!(rq.ext & (EXT_PARSE_OPML | EXT_PARSE_ITMZ))) snapshot_check(snap, rq.a[0].len, d->str, d->currentStringLength, "dstring");
		probe_dstring(d, "source");
		d_string_free(d, true);
	}
	if (family == 2) {
		DString * ed = mmd_engine_d_string(e);
		if (!(rq.ext & (EXT_PARSE_OPML | EXT_PARSE_ITMZ))) snapshot_check(snap, strlen(snap), ed->str, ed->currentStringLength, "engine");
		mmd_engine_free(e, true);
	}
	free(snap);
}

static void op_meta(void) {
	int family = rq.flags & 15, sub = (rq.flags >> 4) & 15;
	const char * key = rq.nargs > 1 ? rq.a[1].p : "";
	const char * val = rq.nargs > 2 ? rq.a[2].p : "";
	size_t end = (size_t) - 7;
	DString * d = NULL;
	mmd_engine * e = NULL;
	char * r = NULL;
	bool b;
	if (family == 1) d = dstr_from(rq.a[0]);
	if (family == 2) e = mmd_engine_create_with_string(rq.a[0].p, rq.ext);

	switch (sub) {
		case 0:
			if (family == 0) b = mmd_string_has_metadata(rq.a[0].p, &end);
			else if (family == 1) b = mmd_d_string_has_metadata(d, &end);
			else b = mmd_engine_has_metadata(e, &end);
			field_fmt("%d %zd", b ? 1 : 0, (ssize_t) end);
			break;
		case 1:
			if (family == 0) r = mmd_string_metadata_keys(rq.a[0].p);
			else if (family == 1) r = mmd_d_string_metadata_keys(d);
			else r = mmd_engine_metadata_keys(e);
			field_str(r);
			free(r);
			break;
		case 2:
			if (family == 0) r = mmd_string_metavalue_for_key(rq.a[0].p, key);
			else if (family == 1) r = mmd_d_string_metavalue_for_key(d, key);
			else {
				r = mmd_engine_metavalue_for_key(e, key);   /* engine variant returns a pointer it owns */
				if (r) r = strdup(r);
			}
			if (r) { field_str(r); } else { field("\x01NULL", 5); }
			free(r);
			break;
		case 3:
			if (family == 0) {
				r = mmd_string_update_metavalue_for_key(rq.a[0].p, key, val);
				field_str(r);
				free(r);
			} else if (family == 1) {
				mmd_d_string_update_metavalue_for_key(d, key, val);
				probe_dstring(d, "updated");
				field(d->str, d->currentStringLength);
			} else {
				mmd_engine_update_metavalue_for_key(e, key, val);
				DString * ed = mmd_engine_d_string(e);
				probe_dstring(ed, "updated");
				field(ed->str, ed->currentStringLength);
			}
			break;
		default:
			status = ST_BAD_REQUEST;
	}
	if (d) d_string_free(d, true);
	if (e) mmd_engine_free(e, true);
}

static void op_critic(void) {
	DString * d = dstr_from(rq.a[0]);
	int reject = rq.flags & 1, ranged = (rq.flags >> 4) & 1;
	if (ranged) {
		size_t s = arg_num(rq.a[1]), l = arg_num(rq.a[2]);
		if (reject) mmd_critic_markup_reject_range(d, s, l);
		else mmd_critic_markup_accept_range(d, s, l);
	} else {
		if (reject) mmd_critic_markup_reject(d);
		else mmd_critic_markup_accept(d);
	}
	probe_dstring(d, "critic");
	field(d->str, d->currentStringLength);
	d_string_free(d, true);
}

static void op_import(void) {
	int family = rq.flags & 15, kind = (rq.flags >> 4) & 15;
	DString * d = NULL, * r = NULL;
	mmd_engine * e = NULL;
	if (family == 0) {
		r = kind ? mmd_string_convert_itmz_to_text(rq.a[0].p) : mmd_string_convert_opml_to_text(rq.a[0].p);
	} else if (family == 1) {
		d = dstr_from(rq.a[0]);
		r = kind ? mmd_d_string_convert_itmz_to_text(d) : mmd_d_string_convert_opml_to_text(d);
		probe_dstring(d, "import-source");
		snapshot_check(rq.a[0].p, rq.a[0].len, d->str, d->currentStringLength, "import-dstring");
	} else {
		/* 0x200: the engine is created over a DString (length-carrying: an ITMZ archive holds NUL bytes) */
		if (rq.flags & 0x200) e = mmd_engine_create_with_dstring(dstr_from(rq.a[0]), rq.ext);
		else e = mmd_engine_create_with_string(rq.a[0].p, rq.ext);
		r = kind ? mmd_engine_convert_itmz_to_text(e) : mmd_engine_convert_opml_to_text(e);
		if (!kind) probe_dstring(mmd_engine_d_string(e), "import-engine-source");
		if (rq.flags & 0x100) {
			/* "without modifying original engine source": the source is as given, and asking again gives the same text */
			DString * es = mmd_engine_d_string(e);
			if (rq.flags & 0x200) snapshot_check(rq.a[0].p, rq.a[0].len, es->str, es->currentStringLength, "import-engine-source");
			else if (!kind) snapshot_check(rq.a[0].p, strlen(rq.a[0].p), es->str, es->currentStringLength, "import-engine-source");
			DString * r2 = kind ? mmd_engine_convert_itmz_to_text(e) : mmd_engine_convert_opml_to_text(e);
			if ((r == NULL) != (r2 == NULL) || (r && r2 && (r->currentStringLength != r2->currentStringLength || memcmp(r->str, r2->str, r->currentStringLength) != 0))) {
				diagf("import-twice-differs:%zu:%zu;", r ? r->currentStringLength : 0, r2 ? r2->currentStringLength : 0);
			}
			if (r2) d_string_free(r2, true);
		}
	}
	probe_dstring(r, "import-result");
	if (r) { field(r->str, r->currentStringLength); d_string_free(r, true); }
	else field("\x01NULL", 5);
	if (d) d_string_free(d, true);
	if (e) { e->root = NULL; mmd_engine_free(e, true); }
}

static void manifest_field(stack * m) {
	DString * out = d_string_new("");
	if (m) {
		for (size_t i = 0; i < m->size; ++i) {
			d_string_append(out, (char *) stack_peek_index(m, i));
			d_string_append_c(out, '\n');
		}
	}
	field(out->str, out->currentStringLength);
	d_string_free(out, true);
}

static void op_transclude(void) {
	DString * d = dstr_from(rq.a[0]);
	const char * search = (rq.flags & 2) ? NULL : rq.a[1].p;
	stack * manifest = stack_new(0);
	mmd_transclude_source(d, search, rq.a[2].p, rq.format, NULL, manifest);
	probe_dstring(d, "transcluded");
	field(d->str, d->currentStringLength);
	manifest_field(manifest);
	for (size_t i = 0; i < manifest->size; ++i) free(stack_peek_index(manifest, i));
	stack_free(manifest);
	d_string_free(d, true);
}

static void op_manifest(void) {
	int family = rq.flags & 15;
	stack * m = NULL;
	DString * d = NULL;
	mmd_engine * e = NULL;
	if (family == 0) m = mmd_string_transclusion_manifest(rq.a[0].p, rq.a[1].p, rq.a[2].p);
	else if (family == 1) { d = dstr_from(rq.a[0]); m = mmd_d_string_transclusion_manifest(d, rq.a[1].p, rq.a[2].p); }
	else { e = mmd_engine_create_with_string(rq.a[0].p, rq.ext); m = mmd_engine_transclusion_manifest(e, rq.a[1].p, rq.a[2].p); }
	manifest_field(m);
	if (m) {
		for (size_t i = 0; i < m->size; ++i) free(stack_peek_index(m, i));
		stack_free(m);
	}
	if (d) {
		snapshot_check(rq.a[0].p, rq.a[0].len, d->str, d->currentStringLength, "manifest-dstring");
		d_string_free(d, true);
	}
	if (e) mmd_engine_free(e, true);
}

static void walk_fields(walk_result * w, DString * acc, const char * stage) {
	char buf[2048];
	int n = snprintf(buf, sizeof(buf), "%s nodes=%ld depth=%ld sig=%016llx", stage, w->nodes, w->maxdepth, (unsigned long long) w->sig);
	for (int c = 0; c < WK_NCLASS; ++c) n += snprintf(buf + n, sizeof(buf) - n, " %s=%ld", walk_class_name[c], w->count[c]);
	n += snprintf(buf + n, sizeof(buf) - n, " msg=%s\n", w->msg);
	d_string_append(acc, buf);
}

static void op_walk(void) {
	mmd_engine * e = mmd_engine_create_with_string(rq.a[0].p, rq.ext);
	mmd_engine_set_language(e, rq.lang);
	size_t srclen = strlen(rq.a[0].p);
	size_t start = 0, len = srclen;
	DString * acc = d_string_new("");
	walk_result w;
	unsigned char types[kMaxTokenTypes + 32] = {0};

	if (rq.flags & 1) {
		start = arg_num(rq.a[2]); len = arg_num(rq.a[3]);
		if (start > srclen) start = srclen;
		if (len > srclen - start) len = srclen - start;
		e->root = mmd_engine_parse_substring(e, start, len);
	} else {
		mmd_engine_parse_string(e);
	}
	srclen = e->dstr->currentStringLength;
	walk_tree(mmd_engine_root(e), start, len, srclen, &w);
	walk_fields(&w, acc, "parse");
	for (int i = 0; i < kMaxTokenTypes + 32; ++i) types[i] |= w.types_seen[i];

	if (!(rq.flags & 1)) {
		for (size_t i = 0; i < rq.a[1].len; ++i) {
			short fmt = (short) rq.a[1].p[i];
			DString * out = d_string_new("");
			mmd_engine_export_token_tree(out, e, fmt);
			d_string_free(out, true);
			srclen = e->dstr->currentStringLength;
			walk_tree(mmd_engine_root(e), 0, srclen, srclen, &w);
			char stage[32];
			snprintf(stage, sizeof(stage), "export%d", fmt);
			walk_fields(&w, acc, stage);
		}
	}
	field(acc->str, acc->currentStringLength);
	field(types, sizeof(types));
	d_string_free(acc, true);
	mmd_engine_free(e, true);
}

/* ---- engine slots: histories against one reused engine */
#define NSLOT 16
static struct { mmd_engine * e; DString * own; } slot[NSLOT];
static int live_engines = 0;

static void op_engine(void) {
	int s = rq.flags & 15, sub = (rq.flags >> 4) & 31;
	mmd_engine * e = slot[s].e;
	size_t end = (size_t) - 7;
	char * r;
	DString * d;
	if (sub > 1 && !e) { status = ST_BAD_REQUEST; return; }
	switch (sub) {
		case 0:	/* create with string */
		case 1: /* create with caller-owned DString */
			if (e) {	/* slot still occupied by an abandoned history: release it first */
				mmd_engine_free(e, slot[s].own ? false : true);
				if (slot[s].own) d_string_free(slot[s].own, true);
				slot[s].e = NULL; slot[s].own = NULL;
				if (--live_engines == 0) POOL_DRAIN();
			}
			if (live_engines++ == 0) POOL_INIT();
			if (sub == 0) { slot[s].e = mmd_engine_create_with_string(rq.a[0].p, rq.ext); slot[s].own = NULL; }
			else { slot[s].own = dstr_from(rq.a[0]); slot[s].e = mmd_engine_create_with_dstring(slot[s].own, rq.ext); }
			mmd_engine_set_language(slot[s].e, rq.lang);
			field("", 0);
			break;
		case 2:
			r = mmd_engine_convert(e, rq.format);
			field_str(r); free(r);
			break;
		case 3:
			d = mmd_engine_convert_to_data(e, rq.format, (rq.nargs > 0 && rq.a[0].len) ? rq.a[0].p : NULL);
			if (!is_binary_format(rq.format)) probe_dstring(d, "engine-to_data");
			if (d) { field(d->str, d->currentStringLength); d_string_free(d, true); } else field("", 0);
			break;
		case 4: {
			bool b = mmd_engine_has_metadata(e, &end);
			field_fmt("%d %zd", b ? 1 : 0, (ssize_t) end);
			break;
		}
		case 5:
			r = mmd_engine_metadata_keys(e);
			field_str(r); free(r);
			break;
		case 6:
			r = mmd_engine_metavalue_for_key(e, rq.a[0].p);
			if (r) field_str(r); else field("\x01NULL", 5);
			break;
		case 7:
			mmd_engine_update_metavalue_for_key(e, rq.a[0].p, rq.a[1].p);
			probe_dstring(mmd_engine_d_string(e), "engine-updated");
			field(mmd_engine_d_string(e)->str, mmd_engine_d_string(e)->currentStringLength);
			break;
		case 8:
			mmd_engine_reset(e);
			field("", 0);
			break;
		case 9:
			mmd_engine_free(e, slot[s].own ? false : true);
			if (slot[s].own) d_string_free(slot[s].own, true);
			slot[s].e = NULL; slot[s].own = NULL;
			if (--live_engines == 0) POOL_DRAIN();
			field("", 0);
			break;
		case 10:
			mmd_engine_set_language(e, rq.lang);
			field("", 0);
			break;
		case 11:
			field(mmd_engine_d_string(e)->str, mmd_engine_d_string(e)->currentStringLength);
			break;
		case 12: {
			if (rq.nargs >= 2 && rq.a[1].len) {
				/* a[0] = start, a[1] = length: parse only that range of the engine's text (public API), nothing else */
				size_t st = arg_num(rq.a[0]), ln = arg_num(rq.a[1]), have = mmd_engine_d_string(e)->currentStringLength;
				if (st > have) st = have;
				if (ln > have - st) ln = have - st;
				mmd_engine_parse_substring(e, st, ln);
				field("", 0);
				break;
			}
			walk_result w;
			DString * acc = d_string_new("");
			mmd_engine_parse_string(e);
			walk_tree(mmd_engine_root(e), 0, e->dstr->currentStringLength, e->dstr->currentStringLength, &w);
			walk_fields(&w, acc, "parse");
			field(acc->str, acc->currentStringLength);
			d_string_free(acc, true);
			break;
		}
		case 13: {	/* walk the existing tree without re-parsing */
			walk_result w;
			DString * acc = d_string_new("");
			walk_tree(mmd_engine_root(e), 0, e->dstr->currentStringLength, e->dstr->currentStringLength, &w);
			walk_fields(&w, acc, "kept");
			field(acc->str, acc->currentStringLength);
			d_string_free(acc, true);
			break;
		}
		case 14: {	/* export the existing tree */
			DString * out = d_string_new("");
			mmd_engine_export_token_tree(out, e, rq.format);
			field(out->str, out->currentStringLength);
			d_string_free(out, true);
			break;
		}
		case 15:	/* the caller edits its own DString (engine created with sub 1) between conversions */
			if (!slot[s].own) { status = ST_BAD_REQUEST; return; }
			d_string_erase(slot[s].own, 0, -1);
			d_string_append_c_array(slot[s].own, rq.a[0].p, rq.a[0].len);
			field("", 0);
			break;
		default:
			status = ST_BAD_REQUEST;
	}
}

static void op_xmlrt(void) {
	DString * esc = d_string_new("");
	DString * back = d_string_new("");
	mmd_print_source_opml(esc, rq.a[0].p, 0, rq.a[0].len);
	print_xml_as_text(back, esc->str, 0, esc->currentStringLength);
	field(esc->str, esc->currentStringLength);
	field(back->str, back->currentStringLength);
	d_string_free(esc, true);
	d_string_free(back, true);
}

static void op_assets(void) {
	mmd_engine * e = mmd_engine_create_with_string(rq.a[0].p, rq.ext);
	mmd_engine_set_language(e, rq.lang);
	const char * dir = (rq.flags & 1) ? rq.a[1].p : NULL;
	DString * r = mmd_engine_convert_to_data(e, rq.format, dir);
	if (!is_binary_format(rq.format)) probe_dstring(r, "assets-to_data");
	if (r) { field(r->str, r->currentStringLength); d_string_free(r, true); } else field("", 0);
	DString * tab = d_string_new("");
	asset * a, * tmp;
	HASH_ITER(hh, e->asset_hash, a, tmp) {
		d_string_append(tab, a->url ? a->url : "(null)");
		d_string_append_c(tab, '\t');
		d_string_append(tab, a->asset_path ? a->asset_path : "(null)");
		d_string_append_c(tab, '\n');
	}
	field(tab->str, tab->currentStringLength);
	d_string_free(tab, true);
	mmd_engine_free(e, true);
}

static void op_headfoot(void) {
	DString * d = dstr_from(rq.a[0]);
	mmd_prepend_mmd_header(d);
	mmd_append_mmd_footer(d);
	probe_dstring(d, "headfoot");
	field(d->str, d->currentStringLength);
	d_string_free(d, true);
}

static void op_linetypes(void) {
	mmd_engine * e = mmd_engine_create_with_string(rq.a[0].p, rq.ext);
	token * doc = mmd_tokenize_string(e, 0, e->dstr->currentStringLength, false);
	DString * out = d_string_new("");
	for (token * l = doc ? doc->child : NULL; l; l = l->next) {
		d_string_append_printf(out, "%d ", l->type);
	}
	field(out->str, out->currentStringLength);
	d_string_free(out, true);
	token_tree_free(doc);
	mmd_engine_free(e, true);
}

/* ---- C02 batch: line-kind sequences, executed natively.
 * args[0] = spec text:
 *   "K L lo hi nfmt f.. next e..\n"  then K records "mustmask absorbmask\tline text\n"
 *   if lo >= 0: sequence index i in [lo,hi) over all sequences of length 1..L (shortest first, base-K digits)
 *   if lo <  0: explicit sequences follow, one per line: "n k1 k2 .. kn\n" (hi = how many)
 * In a line text "@@" is replaced by the line's position, "\n" and "\t" by the control character.
 * A line of kind k at position j carries the sentinel "zq<j>k<k>x".  mustmask bit f: the sentinel must
 * appear in the output of format index f; absorbmask bit f: lines after this one are not checked in f.
 * reply field 0: "conversions seqs failures\n" + up to 64 failure lines; field 1: histogram of the
 * LINE_* types the classifier assigned; field 2: number of distinct line-type bigrams seen.
 */
#define MAXK 64
#define MAXSEQ 40
static void op_linekinds(void) {
	char * p = rq.a[0].p;
	int K, L, nfmt, next;
	long lo, hi;
	int fmts[16];
	unsigned long exts[16];
	char * lines[MAXK];
	unsigned mustmask[MAXK];
	unsigned absorbmask[MAXK];
	int n;
	sscanf(p, "%d %d %ld %ld %d%n", &K, &L, &lo, &hi, &nfmt, &n); p += n;
	for (int i = 0; i < nfmt; ++i) { sscanf(p, "%d%n", &fmts[i], &n); p += n; }
	sscanf(p, "%d%n", &next, &n); p += n;
	for (int i = 0; i < next; ++i) { sscanf(p, "%lu%n", &exts[i], &n); p += n; }
	p = strchr(p, '\n') + 1;
	for (int k = 0; k < K; ++k) {
		sscanf(p, "%u %u%n", &mustmask[k], &absorbmask[k], &n); p += n + 1;
		lines[k] = p;
		char * nl = strchr(p, '\n');
		*nl = 0;
		p = nl + 1;
	}
	long pw[12]; pw[0] = 1;
	for (int l = 1; l <= L && l < 12; ++l) pw[l] = pw[l - 1] * K;
	long conversions = 0, seqs = 0, failures = 0;
	long ltype_hist[64] = {0};
	static unsigned char bigram[64][64];
	memset(bigram, 0, sizeof(bigram));
	DString * fails = d_string_new("");
	DString * doc = d_string_new("");
	int flogged = 0;
	long count = lo >= 0 ? hi - lo : hi;

	for (long it = 0; it < count; ++it) {
		int seq[MAXSEQ];
		int len = 0;
		long idx = lo >= 0 ? lo + it : it;
		if (lo >= 0) {
			long r = idx;
			len = 1;
			while (len <= L && r >= pw[len]) { r -= pw[len]; len++; }
			if (len > L) break;
			for (int j = len - 1; j >= 0; --j) { seq[j] = r % K; r /= K; }
		} else {
			if (sscanf(p, "%d%n", &len, &n) != 1) break;
			p += n;
			if (len > MAXSEQ) len = MAXSEQ;
			for (int j = 0; j < len; ++j) { sscanf(p, "%d%n", &seq[j], &n); p += n; }
		}
		d_string_erase(doc, 0, -1);
		for (int j = 0; j < len; ++j) {
			const char * s = lines[seq[j]];
			for (; *s; ++s) {
				if (s[0] == '@' && s[1] == '@') { d_string_append_printf(doc, "%d", j); s++; }
				else if (s[0] == '\\' && s[1] == 'n') { d_string_append_c(doc, '\n'); s++; }
				else if (s[0] == '\\' && s[1] == 't') { d_string_append_c(doc, '\t'); s++; }
				else d_string_append_c(doc, *s);
			}
			d_string_append_c(doc, '\n');
		}
		seqs++;
		for (int x = 0; x < next; ++x) {
			for (int f = 0; f < nfmt; ++f) {
				ev_reset();
				mmd_engine * e = mmd_engine_create_with_string(doc->str, exts[x]);
				DString * out = NULL;
				in_request = 1;
				if (setjmp(exit_jmp) == 0) {
					if (fmts[f] == FORMAT_ITMZ) {
						/* the writer's text, not the zip built around it */
						char * txt = mmd_engine_convert(e, fmts[f]);
						out = d_string_new(txt ? txt : "");
						free(txt);
					} else {
						out = mmd_engine_convert_to_data(e, fmts[f], NULL);
					}
				}
				int exited = (in_request == 2);
				in_request = 1;
				conversions++;
				const char * why = NULL;
				char whybuf[128];
				if (exited) { snprintf(whybuf, sizeof(whybuf), "exit:%d:%ld:%ld", ev_logged ? ev_log[0].kind : 0, ev_logged ? ev_log[0].a : 0, ev_logged ? ev_log[0].b : 0); why = whybuf; }
				else if (ev_total) { snprintf(whybuf, sizeof(whybuf), "event:%d:%ld:%ld", ev_log[0].kind, ev_log[0].a, ev_log[0].b); why = whybuf; }
				else if (!out || out->currentStringLength == 0) why = "empty";
				else {
					unsigned absorbed = 0;
					for (int j = 0; j < len && !why; ++j) {
						if (!((absorbed >> f) & 1) && ((mustmask[seq[j]] >> f) & 1)) {
							char sent[32];
							snprintf(sent, sizeof(sent), "zq%dk%dx", j, seq[j]);
							if (!strstr(out->str, sent)) { snprintf(whybuf, sizeof(whybuf), "lost:%s", sent); why = whybuf; }
						}
						absorbed |= absorbmask[seq[j]];
					}
				}
				if (why) {
					failures++;
					if (flogged < 64) {
						flogged++;
						d_string_append_printf(fails, "%ld\t%d\t%lu\t%s\t", idx, fmts[f], exts[x], why);
						for (int j = 0; j < len; ++j) d_string_append_printf(fails, "%d ", seq[j]);
						d_string_append_c(fails, '\n');
					}
				}
				if (out) d_string_free(out, true);
				if (!exited) mmd_engine_free(e, true);
			}
		}
		{
			mmd_engine * e = mmd_engine_create_with_string(doc->str, exts[0]);
			token * d = mmd_tokenize_string(e, 0, e->dstr->currentStringLength, false);
			int prev = 0;
			for (token * l = d ? d->child : NULL; l; l = l->next) if (l->type < 64) { ltype_hist[l->type]++; bigram[prev][l->type] = 1; prev = l->type; }
			token_tree_free(d);
			mmd_engine_free(e, true);
		}
	}
	DString * head = d_string_new("");
	d_string_append_printf(head, "%ld %ld %ld\n", conversions, seqs, failures);
	d_string_append(head, fails->str);
	field(head->str, head->currentStringLength);
	DString * hist = d_string_new("");
	for (int i = 0; i < 64; ++i) d_string_append_printf(hist, "%ld ", ltype_hist[i]);
	field(hist->str, hist->currentStringLength);
	field(bigram, sizeof(bigram));
	d_string_free(head, true); d_string_free(hist, true);
	d_string_free(fails, true); d_string_free(doc, true);
	ev_reset();
}

static void op_pool(void) {
#ifdef kUseObjectPool
	long u = 0, s = 0, l = 0, x = 0;
	switch (rq.flags) {
		case 0: token_pool_init(); break;
		case 1: token_pool_drain(); break;
		case 2: token_pool_free(); break;
	}
	mmd6_verif_pool_stats(&u, &s, &l, &x);
	field_fmt("%ld %ld %ld %ld", u, s, l, x);
#else
	field_str("nopool");
#endif
}

/* ------------------------------------------------------------------ main loop */

int main(int argc, char ** argv) {
	(void) argc; (void) argv;
	/* protocol fds: move stdin/stdout away so stray library prints cannot corrupt frames */
	in_fd = dup(0);
	out_fd = dup(1);
	int devnull = open("/dev/null", O_RDWR);
	dup2(devnull, 0);
	real_err = dup(2);
	errfd = memfd_create("verif-stderr", 0);
	int outcap = memfd_create("verif-stdout", 0);
	dup2(outcap, 1);
	/* fd 2 stays connected to the monitor so sanitizer reports reach it; the library's
	 * diagnostics go through the FILE `stderr`, which is pointed at the memfd instead */
	FILE * cap = fdopen(errfd, "w");
	setvbuf(cap, NULL, _IONBF, 0);
	stderr = cap;
	setvbuf(stdout, NULL, _IONBF, 0);
	srand(1);

	for (;;) {
		uint32_t len;
		xread(&len, 4);
		rq.raw = malloc(len + 1);
		xread(rq.raw, len);
		char * p = rq.raw;
		memcpy(&rq.op, p, 4); p += 4;
		memcpy(&rq.format, p, 4); p += 4;
		memcpy(&rq.ext, p, 8); p += 8;
		memcpy(&rq.lang, p, 4); p += 4;
		memcpy(&rq.flags, p, 4); p += 4;
		memcpy(&rq.nargs, p, 4); p += 4;
		/* args are copied so that each is NUL-terminated and separately allocated (ASan red zones) */
		for (uint32_t i = 0; i < rq.nargs && i < MAXARGS; ++i) {
			uint32_t al;
			memcpy(&al, p, 4); p += 4;
			rq.a[i].p = malloc(al + 1);
			memcpy(rq.a[i].p, p, al);
			rq.a[i].p[al] = 0;
			rq.a[i].len = al;
			p += al;
		}

		reply = d_string_new("");
		nfields = 0;
		status = ST_OK;
		diaglen = 0; diag[0] = 0;
		ev_reset();
		ftruncate(errfd, 0); lseek(errfd, 0, SEEK_SET);
		ftruncate(outcap, 0); lseek(outcap, 0, SEEK_SET);

		int pool_bracket = !(rq.op == OP_POOL || rq.op == OP_PING || rq.op == OP_RESEED || (rq.flags & 0x40000000));
		if (pool_bracket) POOL_INIT();
		in_request = 1;
		exit_status = 0;
		if (setjmp(exit_jmp) == 0) {
			switch (rq.op) {
				case OP_PING: field("pong", 4); break;
				case OP_CONVERT: op_convert(); break;
				case OP_META: op_meta(); break;
				case OP_CRITIC: op_critic(); break;
				case OP_IMPORT: op_import(); break;
				case OP_TRANSCLUDE: op_transclude(); break;
				case OP_WALK: op_walk(); break;
				case OP_ENGINE: op_engine(); break;
				case OP_XMLRT: op_xmlrt(); break;
				case OP_ASSETS: op_assets(); break;
				case OP_LINEKINDS: op_linekinds(); break;
				case OP_HEADFOOT: op_headfoot(); break;
				case OP_LINETYPES: op_linetypes(); break;
				case OP_MANIFEST: op_manifest(); break;
				case OP_RESEED: srand((unsigned) rq.ext); field("", 0); break;
				case OP_POOL: op_pool(); break;
				default: status = ST_BAD_REQUEST;
			}
		} else {
			status = ST_EXIT_CALLED;
			diagf("exit(%d);", exit_status);
		}
		in_request = 0;
		if (pool_bracket) POOL_DRAIN();

		/* standard trailer */
		{
			char ev[2048]; int n = 0;
			n += snprintf(ev, sizeof(ev), "total=%ld", ev_total);
			for (int i = 0; i < ev_logged && n < (int) sizeof(ev) - 64; ++i) {
				n += snprintf(ev + n, sizeof(ev) - n, " %d:%ld:%ld", ev_log[i].kind, ev_log[i].a, ev_log[i].b);
			}
			field(ev, n);
			off_t sz = lseek(errfd, 0, SEEK_CUR);
			off_t osz = lseek(outcap, 0, SEEK_CUR);
			if (sz > 65536) sz = 65536;
			char * eb = malloc(sz + 1);
			pread(errfd, eb, sz, 0);
			field(eb, sz);
			free(eb);
			if (osz > 0) diagf("stdout-bytes=%ld;", (long) osz);
			field(diag, diaglen);
		}
		uint32_t total = 8 + reply->currentStringLength;
		xwrite(&total, 4);
		xwrite(&status, 4);
		xwrite(&nfields, 4);
		xwrite(reply->str, reply->currentStringLength);
		d_string_free(reply, true);
		for (uint32_t i = 0; i < rq.nargs && i < MAXARGS; ++i) free(rq.a[i].p);
		free(rq.raw);
	}
}
