/* dump.c -- print the token tree of stdin (debug aid, not a check) */
#include "common.h"
int main(int argc, char ** argv) {
	unsigned long ext = argc > 1 ? strtoul(argv[1], NULL, 0) : (EXT_SMART | EXT_NOTES | EXT_CRITIC | EXT_TRANSCLUDE);
	DString * d = d_string_new("");
	char buf[4096]; size_t n;
	while ((n = fread(buf, 1, sizeof(buf), stdin)) > 0) d_string_append_c_array(d, buf, n);
#ifdef kUseObjectPool
	token_pool_init();
#endif
	mmd_engine * e = mmd_engine_create_with_dstring(d, ext);
	mmd_engine_parse_string(e);
	if (argc > 2) {
		DString * out = d_string_new("");
		mmd_engine_export_token_tree(out, e, atoi(argv[2]));
		printf("OUTPUT: %s\n", out->str);
	}
	token_tree_describe(mmd_engine_root(e), d->str);
	return 0;
}
