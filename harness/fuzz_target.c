/* fuzz_target.c -- C01 thorough tier: coverage-guided inputs (libFuzzer) over the text-accepting entry points.
 *
 * Input layout: byte0 = entry point (low 3 bits) ; byte1 = output format ; bytes2..4 = extension bits ;
 * byte5 = language ; rest = the text.  lib/fuzz.py converts an artifact back into a worker request with
 * the same decoding (keep the two in step).
 * Built with clang -fsanitize=fuzzer,address,undefined (library: fuzzer-no-link).  exit() from inside the
 * library is intercepted (C02 judges it); transclusion is masked out (no file system access here).
 */
#define VERIF_CUSTOM_SINK
#include "common.h"
#include <setjmp.h>

void mmd6_verif_event(int kind, long a, long b) { (void) kind; (void) a; (void) b; }
void mmd6_verif_point(int where) { (void) where; }

static jmp_buf exit_jmp;
static int in_call;
void __real_exit(int);
void __wrap_exit(int status) {
	if (in_call) {
		in_call = 0;
		longjmp(exit_jmp, 1);
	}
	__real_exit(status);
}

char * mmd_string_convert(const char * source, unsigned long extensions, short format, short language);
char * mmd_string_metadata_keys(char * source);
void mmd_critic_markup_accept(DString * d);
void mmd_critic_markup_reject(DString * d);

int LLVMFuzzerInitialize(int * argc, char *** argv) {
	(void) argc; (void) argv;
#ifdef kUseObjectPool
	token_pool_init();
#endif
	return 0;
}

int LLVMFuzzerTestOneInput(const unsigned char * data, size_t size) {
	if (size < 6) return 0;
	int entry = data[0] & 7;
	short fmt = data[1] % 13;
	unsigned long ext = (data[2] | (data[3] << 8) | ((unsigned long)(data[4] & 1) << 16)) & ~(unsigned long) EXT_TRANSCLUDE;
	short lang = data[5] % 7;
	size_t n = size - 6;
	char * text = malloc(n + 1);
	memcpy(text, data + 6, n);
	text[n] = 0;
	in_call = 1;
	if (setjmp(exit_jmp) == 0) {
		switch (entry) {
			default: {
				char * out = mmd_string_convert(text, ext, fmt, lang);
				free(out);
				break;
			}
			case 4: {
				char * keys = mmd_string_metadata_keys(text);
				free(keys);
				char * v = mmd_string_metavalue_for_key(text, "title");
				free(v);
				break;
			}
			case 5: {
				DString * d = d_string_new(text);
				if (data[1] & 1) mmd_critic_markup_accept(d); else mmd_critic_markup_reject(d);
				d_string_free(d, true);
				break;
			}
			case 6: {
				/* OPML / ITMZ text import, then export */
				unsigned long e2 = (ext & ~(unsigned long)(EXT_PARSE_OPML | EXT_PARSE_ITMZ)) | ((data[1] & 1) ? EXT_PARSE_OPML : EXT_PARSE_ITMZ);
				char * out = mmd_string_convert(text, e2, FORMAT_HTML, lang);
				free(out);
				break;
			}
			case 7: {
				mmd_engine * e = mmd_engine_create_with_string(text, ext);
				size_t sl = strlen(text);       /* the engine holds a C string */
				if (sl) {
					size_t a = data[2] % sl, l = data[3] % (sl - a + 1);
					mmd_engine_parse_substring(e, a, l);
				}
				mmd_engine_free(e, true);
				break;
			}
		}
	}
	in_call = 0;
	free(text);
#ifdef kUseObjectPool
	token_pool_drain();
#endif
	return 0;
}
