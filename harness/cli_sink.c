/* Event sink linked into the CLI binary built with -DMMD6_VERIF: appends one line per event to
 * the file named by $MMD6_VERIF_LOG (nothing if unset). */
#include <stdio.h>
#include <stdlib.h>
void mmd6_verif_event(int kind, long a, long b) {
	const char * p = getenv("MMD6_VERIF_LOG");
	if (p) {
		FILE * f = fopen(p, "a");
		if (f) { fprintf(f, "%d %ld %ld\n", kind, a, b); fclose(f); }
	}
}
void mmd6_verif_point(int where) { (void) where; }
