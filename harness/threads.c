/* threads.c -- C17: T threads convert streams of documents concurrently (library built with
 * DISABLE_OBJECT_POOL and ThreadSanitizer).  Every thread has its own engines; reference outputs
 * are computed serially first in the same process; MMD6_POINT hooks inject yields so conversions
 * really overlap.
 *
 * usage: threads <docsfile> <seed> <nthreads> <iterations-per-thread>
 *   docsfile: u32 ndocs, then (u32 len, bytes)*
 * stdout: MISMATCH lines, then "DONE conversions mismatches overlapping_conversions events"
 */
#define VERIF_CUSTOM_SINK
#include "common.h"
#include <pthread.h>
#include <time.h>
#include <sched.h>
#include <stdatomic.h>

static atomic_long events_seen;
void mmd6_verif_event(int kind, long a, long b) { (void) kind; (void) a; (void) b; atomic_fetch_add(&events_seen, 1); }

static __thread uint64_t trs;
static __thread int in_worker;
static inline uint64_t trnd(void) {
	uint64_t z = (trs += 0x9E3779B97F4A7C15ull);
	z = (z ^ (z >> 30)) * 0xBF58476D1CE4E5B9ull;
	z = (z ^ (z >> 27)) * 0x94D049BB133111EBull;
	return z ^ (z >> 31);
}
void mmd6_verif_point(int where) {
	(void) where;
	if (!in_worker) return;
	uint64_t r = trnd();
	if ((r & 7) == 0) sched_yield();
	else if ((r & 63) == 1) { struct timespec ts = {0, 20000 + (long)(r >> 40) % 80000}; nanosleep(&ts, NULL); }
}

typedef struct { char * p; size_t len; } doc_t;
static doc_t * docs;
static uint32_t ndocs;

typedef struct { short fmt; unsigned long ext; short lang; int compare; int pre; } combo_t;       /* pre: 1 accept, 2 reject text-level pass first (as the CLI does for -a/-r), 3 metadata keys */
#define X (EXT_SMART | EXT_NOTES | EXT_CRITIC)
static combo_t combos[] = {
	{FORMAT_HTML, X, 0, 1}, {FORMAT_HTML, X | EXT_OBFUSCATE, 0, 1}, {FORMAT_HTML, X | EXT_COMPLETE, 2, 1},
	{FORMAT_HTML, EXT_COMPATIBILITY | EXT_NO_LABELS | EXT_OBFUSCATE | EXT_NO_METADATA, 0, 1},
	{FORMAT_LATEX, X, 0, 1}, {FORMAT_BEAMER, X | EXT_COMPLETE, 3, 1}, {FORMAT_MEMOIR, X, 0, 1},
	{FORMAT_FODT, X, 0, 1}, {FORMAT_OPML, X, 0, 1}, {FORMAT_MMD, X, 0, 1}, {FORMAT_HTML, X | EXT_SNIPPET | EXT_CRITIC_ACCEPT, 5, 1},
	{FORMAT_HTML, X | EXT_RANDOM_FOOT, 0, 0}, {FORMAT_HTML, X | EXT_RANDOM_LABELS, 0, 0},
	{FORMAT_EPUB, X, 0, 0}, {FORMAT_ODT, X, 0, 0}, {FORMAT_TEXTBUNDLE_COMPRESSED, X, 0, 0}, {FORMAT_ITMZ, X, 0, 0},
	{FORMAT_HTML, X | EXT_CRITIC_ACCEPT, 0, 1, 1}, {FORMAT_LATEX, X | EXT_CRITIC_REJECT, 0, 1, 2}, {FORMAT_HTML, X, 0, 1, 3},
	{FORMAT_TEXTBUNDLE, X, 0, 1, 4},		/* pre 4: written to a directory of its own with convert_to_file (relative path), then read back */
};
void mmd_string_convert_to_file(const char * source, unsigned long extensions, short format, short language, const char * directory, const char * filepath);
static atomic_long bundle_id;
static char * slurp(const char * dir, const char * name, size_t * len) {
	char path[512];
	snprintf(path, sizeof(path), "%s/%s", dir, name);
	FILE * f = fopen(path, "rb");
	*len = 0;
	if (!f) return NULL;
	fseek(f, 0, SEEK_END);
	long n = ftell(f);
	fseek(f, 0, SEEK_SET);
	char * b = malloc(n + 1);
	if (n && fread(b, 1, n, f) != (size_t) n) n = 0;
	fclose(f);
	b[n] = 0;
	*len = n;
	return b;
}
void mmd_critic_markup_accept(DString * d);
void mmd_critic_markup_reject(DString * d);
char * mmd_string_metadata_keys(char * source);
#define NCOMBO (sizeof(combos)/sizeof(combos[0]))

typedef struct { char * p; size_t len; } out_t;
static out_t * refs;       /* ndocs * NCOMBO */

static out_t convert(uint32_t d, int c) {
	out_t o = {NULL, 0};
	DString * r;
	if (combos[c].pre == 3) {
		char * keys = mmd_string_metadata_keys(docs[d].p);
		o.len = keys ? strlen(keys) : 0;
		o.p = malloc(o.len + 1);
		if (keys) memcpy(o.p, keys, o.len);
		free(keys);
		return o;
	}
	if (combos[c].pre == 4) {
		/* every call writes a bundle directory of its own; its members must be there afterwards, holding this document */
		char dir[64];
		snprintf(dir, sizeof(dir), "tb_%ld.textbundle", (long) atomic_fetch_add(&bundle_id, 1));
		mmd_string_convert_to_file(docs[d].p, combos[c].ext, combos[c].fmt, combos[c].lang, NULL, dir);
		size_t lt, li;
		char * text = slurp(dir, "text.markdown", &lt), * info = slurp(dir, "info.json", &li);
		const char * verdict = (!text) ? "MISSING text.markdown" : (!info) ? "MISSING info.json" : NULL;
		if (verdict) {
			o.len = strlen(verdict);
			o.p = strdup(verdict);
		} else if (strstr(text, "assets/")) {
			/* asset names are random: presence of the members is all that is compared */
			o.len = 6;
			o.p = strdup("ASSETS");
		} else {
			o.len = lt;
			o.p = text;
			text = NULL;
		}
		free(text);
		free(info);
		return o;
	}
	if (combos[c].pre) {
		DString * src = d_string_new(docs[d].p);
		if (combos[c].pre == 1) mmd_critic_markup_accept(src); else mmd_critic_markup_reject(src);
		r = mmd_d_string_convert_to_data(src, combos[c].ext, combos[c].fmt, combos[c].lang, NULL);
		d_string_free(src, true);
	} else {
		r = mmd_string_convert_to_data(docs[d].p, combos[c].ext, combos[c].fmt, combos[c].lang, NULL);
	}
	if (r) {
		o.len = r->currentStringLength;
		o.p = malloc(o.len + 1);
		memcpy(o.p, r->str, o.len);
		d_string_free(r, true);
	}
	return o;
}

typedef struct { int id; uint64_t seed; long iters; long mism; long done; uint64_t * t0, * t1; out_t * outs; uint32_t * dd; int * cc; } worker_t;
static uint64_t now_ns(void) { struct timespec ts; clock_gettime(CLOCK_MONOTONIC, &ts); return (uint64_t) ts.tv_sec * 1000000000ull + ts.tv_nsec; }

static pthread_barrier_t bar;
static void * worker(void * arg) {
	worker_t * w = arg;
	trs = w->seed;
	in_worker = 1;
	pthread_barrier_wait(&bar);
	for (long i = 0; i < w->iters; ++i) {
		uint32_t d = trnd() % ndocs;
		int c = trnd() % NCOMBO;
		w->t0[i] = now_ns();
		out_t o = convert(d, c);
		w->t1[i] = now_ns();
		w->outs[i] = o; w->dd[i] = d; w->cc[i] = c;
		w->done++;
	}
	return NULL;
}

int main(int argc, char ** argv) {
	if (argc < 5) return 2;
	FILE * f = fopen(argv[1], "rb");
	if (!f) return 2;
	uint64_t seed = strtoull(argv[2], NULL, 10);
	int nt = atoi(argv[3]);
	long iters = atol(argv[4]);
	if (fread(&ndocs, 4, 1, f) != 1) return 2;
	docs = calloc(ndocs, sizeof(doc_t));
	for (uint32_t i = 0; i < ndocs; ++i) {
		uint32_t l;
		if (fread(&l, 4, 1, f) != 1) return 2;
		docs[i].p = malloc(l + 1);
		if (l && fread(docs[i].p, 1, l, f) != l) return 2;
		docs[i].p[l] = 0;
		docs[i].len = l;
	}
	fclose(f);
	refs = calloc((size_t) ndocs * NCOMBO, sizeof(out_t));

	pthread_t * th = calloc(nt, sizeof(pthread_t));
	worker_t * ws = calloc(nt, sizeof(worker_t));
	pthread_barrier_init(&bar, NULL, nt);
	for (int t = 0; t < nt; ++t) {
		ws[t].id = t; ws[t].seed = seed * 1000003ull + t * 7919ull + 1; ws[t].iters = iters;
		ws[t].t0 = calloc(iters, 8); ws[t].t1 = calloc(iters, 8);
		ws[t].outs = calloc(iters, sizeof(out_t)); ws[t].dd = calloc(iters, 4); ws[t].cc = calloc(iters, sizeof(int));
		pthread_create(&th[t], NULL, worker, &ws[t]);
	}
	long total = 0, mism = 0;
	for (int t = 0; t < nt; ++t) { pthread_join(th[t], NULL); total += ws[t].done; }
	/* the serial references are computed only now: nothing in the library has been touched before the threads started, so lazily
	 * initialised state is first used concurrently (an earlier serial pass would hide a racy first use) */
	in_worker = 0;
	for (int t = 0; t < nt; ++t) for (long i = 0; i < ws[t].done; ++i) {
			uint32_t d = ws[t].dd[i]; int c = ws[t].cc[i];
			if (!combos[c].compare) continue;
			out_t * r = &refs[d * NCOMBO + c];
			if (!r->p) *r = convert(d, c);
			out_t o = ws[t].outs[i];
			if (o.len != r->len || memcmp(o.p, r->p, o.len) != 0) {
				size_t k = 0;
				while (k < o.len && k < r->len && o.p[k] == r->p[k]) k++;
				printf("MISMATCH thread=%d doc=%u combo=%d at=%zu len=%zu/%zu\n", t, d, c, k, o.len, r->len);
				mism++;
			}
		}
	/* how many conversions overlapped in time with a conversion of another thread */
	long overlapping = 0;
	for (int t = 0; t < nt; ++t) for (long i = 0; i < iters; ++i) {
			int hit = 0;
			for (int u = 0; u < nt && !hit; ++u) if (u != t) {
					/* binary search would do; streams are short */
					for (long j = 0; j < iters; ++j) {
						if (ws[u].t0[j] < ws[t].t1[i] && ws[t].t0[i] < ws[u].t1[j]) { hit = 1; break; }
						if (ws[u].t0[j] > ws[t].t1[i]) break;
					}
				}
			overlapping += hit;
		}
	printf("DONE %ld %ld %ld %ld\n", total, mism, overlapping, (long) atomic_load(&events_seen));
	return 0;
}
