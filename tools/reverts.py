#!/usr/bin/env python3
"""Self-test: undo each `fix:` commit of /repo in the working tree, one at a time, and require the check of the
property it was recorded under to report the recorded key again.

  tools/reverts.py [commit ...] [--tier quick|thorough]

For each `fixed` entry of known_findings.json: `git -C /repo diff <commit> <commit>^ | git apply` (the reverse of the
fix on top of the current tree; skipped when it no longer applies because later fixes touch the same lines), run
./check <property> with outputs redirected (VERIF_OUT_DIR), record exit code and whether the recorded key is among
the reported ones, then `git -C /repo checkout -- .`.  Results: selftest/REVERTS.json, selftest/REVERTS.md.
"""
import os, sys, json, subprocess, tempfile, shutil, time, re
V = os.path.dirname(os.path.dirname(os.path.abspath(__file__)))
REPO = '/tmp/mmd6-wt-reverts-%d' % os.getpid()          # scratch worktree of /repo (removed at the end); checks are pointed at it through VERIF_REPO
OUTD = os.path.join(V, 'selftest')


def sh(cmd, **kw):
    return subprocess.run(cmd, capture_output=True, text=True, **kw)


def clean():
    return sh(['git', '-C', REPO, 'status', '--porcelain', '--untracked-files=no']).stdout.strip() == ''


def main():
    a = sys.argv[1:]
    tier = 'quick'
    if '--tier' in a:
        i = a.index('--tier')
        tier = a[i + 1]
        del a[i:i + 2]
    db = json.load(open(os.path.join(V, 'known_findings.json')))['findings']
    by_commit = {}
    for e in db:
        if e['status'] == 'fixed' and e.get('commit'):
            by_commit.setdefault(e['commit'], []).append(e)
    os.makedirs(OUTD, exist_ok=True)
    sh(['git', '-C', '/repo', 'worktree', 'remove', '--force', REPO])
    wt = sh(['git', '-C', '/repo', 'worktree', 'add', '--detach', REPO, 'HEAD'])
    assert wt.returncode == 0, wt.stderr
    try:
        run(a, tier, by_commit)
    finally:
        sh(['git', '-C', '/repo', 'worktree', 'remove', '--force', REPO])


def run(a, tier, by_commit):
    resume = '--resume' in a
    a = [x for x in a if x != '--resume']
    rp = os.path.join(OUTD, 'REVERTS.json')
    allres = json.load(open(rp)) if os.path.exists(rp) else {}
    order = sh(['git', '-C', REPO, 'log', '--format=%h']).stdout.split()
    commits = [c for c in order if any(c.startswith(k) or k.startswith(c) for k in by_commit)]
    if a:
        commits = [c for c in commits if any(c.startswith(x) or x.startswith(c) for x in a)]
    for c in commits:
        if resume and c in allres:
            continue
        entries = [e for k, es in by_commit.items() if c.startswith(k) or k.startswith(c) for e in es]
        subj = sh(['git', '-C', REPO, 'log', '--format=%s', '-1', c]).stdout.strip()
        assert clean(), '/repo is not clean'
        diff = sh(['git', '-C', REPO, 'diff', c, c + '^']).stdout
        ap = subprocess.run(['git', '-C', REPO, 'apply', '-'], input=diff, capture_output=True, text=True)
        if ap.returncode:
            ap = subprocess.run(['git', '-C', REPO, 'apply', '-3', '-'], input=diff, capture_output=True, text=True)
        if ap.returncode or not sh(['git', '-C', REPO, 'status', '--porcelain', '--untracked-files=no']).stdout.strip():
            sh(['git', '-C', REPO, 'reset', '-q', '--hard'])
            sh(['git', '-C', REPO, 'clean', '-fdq'])
            allres[c] = dict(subject=subj, skipped='reverse patch no longer applies (later fixes touch the same lines)')
            print(c, 'SKIP', subj)
            json.dump(allres, open(rp, 'w'), indent=1, sort_keys=True)
            continue
        res = dict(subject=subj, tier=tier, checks={})
        try:
            for prop in sorted(set(e['property'] for e in entries)):
                want = sorted(e['key'] for e in entries if e['property'] == prop)
                out = tempfile.mkdtemp(prefix='mmd6-revert-')
                t0 = time.time()
                env = dict(os.environ, VERIF_REPO=REPO, VERIF_OUT_DIR=out, VERIF_TIER=tier, VERIF_SEED=os.environ.get('VERIF_SEED', '1'))
                cp = sh([os.path.join(V, 'check'), prop, '--tier', tier], env=env, cwd=V)
                keys = sorted(set(re.findall(r'^\s+key=(\S+)', cp.stdout, re.M)))
                res['checks'][prop] = dict(exit=cp.returncode, detected=cp.returncode == 1, recorded_keys=want, recorded_key_seen=[k for k in want if k in keys],
                                           keys=keys[:10], wall_s=round(time.time() - t0, 1))
                shutil.rmtree(out, ignore_errors=True)
        finally:
            sh(['git', '-C', REPO, 'reset', '-q', '--hard'])
            sh(['git', '-C', REPO, 'clean', '-fdq'])
        assert clean()
        allres[c] = res
        print(c, subj[:70], {p: (r['detected'], len(r['recorded_key_seen'])) for p, r in res['checks'].items()})
        json.dump(allres, open(rp, 'w'), indent=1, sort_keys=True)
    lines = ['# Self-test: each `fix:` commit undone in turn', '',
             'The reverse of one fix is applied to the current tree, the check of the property it was recorded under is run (outputs redirected), the tree is restored.',
             '`detected` = exit 1 with a VIOLATION line; `same key` = the key recorded in known_findings.json for that fix was among the reported ones.', '',
             '| commit | fix | property | tier | detected | same key | keys reported | wall s |', '|---|---|---|---|---|---|---|---|']
    for c in order:
        if c not in allres:
            continue
        r = allres[c]
        if 'skipped' in r:
            lines.append('| %s | %s | | | skipped: %s | | | |' % (c, r['subject'][:90], r['skipped']))
            continue
        for p, cr in sorted(r['checks'].items()):
            lines.append('| %s | %s | %s | %s | %s | %s | %s | %s |' % (c, r['subject'][:90].replace('|', '\\|'), p, r['tier'], 'yes' if cr['detected'] else 'NO (exit %s)' % cr['exit'],
                                                                   '%d/%d' % (len(cr['recorded_key_seen']), len(cr['recorded_keys'])), ', '.join('`%s`' % k for k in cr['keys'][:3]), cr['wall_s']))
    open(os.path.join(OUTD, 'REVERTS.md'), 'w').write('\n'.join(lines) + '\n')


main()
