#!/usr/bin/env python3
"""Regenerate MANIFEST.json from the table below (keeps it valid at all times)."""
import json, os, subprocess
V = os.path.dirname(os.path.dirname(os.path.abspath(__file__)))
hook_commit = subprocess.run(['git', '-C', '/repo', 'log', '--format=%h', '--grep', 'verif hooks', '-1'], capture_output=True, text=True).stdout.strip()

CHECKS = {
 'C01': ('compiler sanitizers (ASan+UBSan, fatal) over generated hostile workloads, pool and no-pool builds; libFuzzer in the thorough tier',
         'no ASan/UBSan report, signal or abort on N executions of every text-accepting entry point (convert x 3 families x convert/to_data/to_file, metadata, CriticMarkup, OPML/ITMZ import, transclusion, manifest, header/footer, parse_substring) over hostile inputs x 13 formats x random extension subsets x 7 languages, on both builds. This is "no report on what was run", not memory safety.',
         'trusted: gcc ASan/UBSan runtimes; miniz.c built without alignment/nonnull-attribute checks (DESIGN 3.1); red-zone tools miss intra-object and far overflows and reads of recycled memory'),
 'C02': ('hook event counters + exit() interception + fd-2 capture + sentinel presence, bounded-exhaustive over line-kind sequences',
         'all sequences of <= L line-kind representatives (L=3 quick, 4 thorough) plus random longer sequences and hostile byte strings, x 7 writers x {MMD, compat}: no parser syntax-error/parse-failure event, no unknown-token branch, no exit(), no hang, non-empty output, and every must-render line present. Exhaustive over representatives only.',
         'trusted: the guarded hooks (MMD6_VERIF) report every escape site listed in DESIGN 3.2; one representative text per line kind'),
 'C03': ('independent reference renderer (AST -> prescribed HTML) + spelling-equivalence and compositionality monitors over generated abstract documents',
         'N abstract documents (1-8 blocks from 13 block kinds incl. nesting, 17 inline kinds) in {MMD, MMD+smart, compatibility} mode: reference rendering in a random spelling, 4 single-axis spelling variants vs the default (12 axes: bullet, marker indent, closing #, Setext, LF/CRLF, first number, rule form, fence length, title quoting, link style, emphasis char, trailing blanks), permutations of independent blocks vs concatenation; plus every ordered sibling pair and container>child pair of block kinds',
         'the generator only emits unambiguous uses of the syntax and the reference renderer covers exactly those; inter-block whitespace follows the writer\'s one-blank-line discipline; leading spaces on paragraphs/headings/fences are not generated (not a documented equivalence)'),
 'C04': ('conservation / escaping / nesting monitors over sentinel documents per output format',
         'N sentinel documents x {html, latex, beamer, memoir, fodt, opml}: every body word exactly once and in order (notes relocate as a block); 31 reserved characters x 28 syntactic positions appear only in a form the target allows and decode back to the character; HTML tag stack, LaTeX environment/brace balance, expat for FODT/OPML',
         'smart typography off (C03 judges it); word order is judged for body words, attribute-like text (urls, titles, alt) is judged for presence'),
 'C05': ('history monitor: every output inside a long-lived process compared with the same conversion done first in a fresh process',
         'N histories (1..k conversions, 3 API families, reused engines with interleaved metadata queries/updates/resets) on pool and no-pool ASan builds; every output byte-equal to the fresh-process reference; caller source snapshotted around every call',
         'textual formats only (packages carry uuids/dates, compared in C06/C09); random anchors excluded as the property excludes them'),
 'C06': ('differential monitor across entry points: 3 API families x convert/to_data/to_file and the CLI (stdin, file, -o, -b)',
         'pairwise byte equality (member-wise with uuid/date normalisation for packages) on N generated and corpus sources x 11 formats x CLI-expressible option sets; to_file must create the file; metadata query variants and CLI -m/-e agree',
         'reference per case is mmd_d_string_convert_to_data; sources exclude what the CLI deliberately pre-processes (mmd header/footer, transclusion, CriticMarkup)'),
 'C11': ('reference model of the metadata block evaluated on generated blocks and update histories',
         'has_metadata/end, key list, every value, update read-back (same engine and re-read), unchanged other values and body, and <head> of the complete document, on N generated blocks x 3 API families; expected values come from the generator, not from the code',
         'model: whitespace runs collapse to one space, keys lower-cased over [0-9a-z._-:]; no backslash-newline in generated values'),
 'C15': ('invariant walker over the live token tree at quiescent points (after parse, after parse_substring, after each export) + run-time enum relation probe',
         'finite/acyclic, in-source ranges, root extent, prev/next consistency, sibling order, mate symmetry, type range on N trees from corpus, generated and hostile inputs, pool and no-pool; 14 numeric enum relations',
         'tail shortcut pointers are reported, not judged; root extent not judged for parse_substring'),
 'C07': ('resource monitors per child process: signal watch under an 8 MiB stack, stack high-water and executed-basic-block counter from a trace-pc callback',
         '32 nesting constructs x {closed, unclosed} x opener runs up to 10^5 (quick) / 10^6 (thorough) bytes x writers: no signal on the shipped-flags and no-pool ASan builds, stack high-water plateaus; cost(d^k) <= 4 x growth of input+output for corpus/generated seeds and 17 pathological patterns (published ones plus mixtures of a matched pair with an unmatched opener), measured in basic blocks',
         'cost of deep *balanced* nesting is not promised by the property and is not judged (runs are cut short by a time budget and counted); decided up to the sizes run'),
 'C13': ('reference expander (Python model of the documented transclusion rules) + termination watchdog + size bound',
         'N generated include graphs on disk (chains, trees, DAGs with sharing, self-loops, cycles, missing targets, nested directories, transclude-base overrides, wildcards, metadata, CRLF) x {html, latex, fodt, mmd}: acyclic = byte equality of text and manifest with the model; cyclic = returns within the watchdog and stays within S(m+1)^(n+1); CLI agrees with the library',
         'for cyclic graphs only termination and the size bound are judged; the model\'s cycle reading is reported'),
 'C17': ('ThreadSanitizer (happens-before race detection) over a multi-threaded harness with yield injection at hooks + serial-vs-concurrent byte comparison',
         'N runs of T in {2,4,8,16} threads x 30-60 conversions over 30 documents x 20 entry-point/format/extension combos (incl. the text-level CriticMarkup accept/reject pass and metadata keys) on the DISABLE_OBJECT_POOL + TSan build: no report with a frame in /repo/src, every deterministic output equals the serial one; >= 25% of conversions overlapped another thread in every counted run',
         'TSan only understands intercepted synchronisation; interleavings are those the scheduler and injected yields produced'),
 'C18': ('hook-state invariants + ASan + allocated-bytes accounting over enumerated/sampled pool call histories',
         'N well-bracketed histories (init/drain/free/convert/parse-and-keep/inspect, depth <= 4, <= 8 kept engines) with documents calibrated to 1023/1024/1025/2048/2049 tokens and up to ~68000: uses = depth, inner drains free nothing, outermost drain frees every slab and returns to the recorded byte level, free returns to baseline, re-init starts clean, outputs and kept trees unchanged',
         'reference output of a document is its first conversion in the process; fresh-process equality is C05'),
 'C08': ('strict XML parser (expat) as oracle over every XML/XHTML output and package member',
         'N slot documents (XML-hostile atoms in every syntactic position) x {opml, fodt, itmz, odt, epub}: every XML member parses; violations are classified by mechanism (by-design passthrough of author-typed markup vs an escaping site)',
         'expat without DTDs (only the five XML entities); sources are valid UTF-8 without C0/C1 controls other than tab/line breaks'),
 'C09': ('archive/structure monitors over produced packages: zip reader with CRC, member-set and manifest oracles, differential main-document check, asset-table consistency from the live engine',
         'N generated documents (images inline/reference/titled/angle-bracketed/missing/empty/remote/long, css, hostile titles, headings, TOC) x {epub, odt, bundlezip, textbundle, itmz} x {directory, NULL}: archive integrity, required members, main document = plain rendering, references = asset table >= members, stored bytes = files',
         'reference renderings come from the same library (differential); asset table dumped from the engine by the worker'),
 'C10': ('graph monitor over the href/id pairs of the HTML output',
         'N note- and heading-heavy generated documents x {default, random footnote anchors, random labels, no labels, complete}: calls resolve, back-links reach the first call, numbering 1..n, no duplicate note ids, cross-references and TOC entries resolve to the heading meant',
         'regex-level HTML parsing of the writer\'s own regular output; not-cited entries exempt from the back-link rule as the property states'),
 'C12': ('reference model: expected accept/reject text computed from a generated edit script',
         'N edit scripts (nesting, empty payloads, paragraph-spanning marks, escaped braces, stray markers): whole string, sub-range, idempotence, and CLI -a/-r vs rendering the edited text',
         'cases whose serialisation forms an unintended marker by juxtaposition are discarded and counted'),
 'C14': ('section model + round-trip and inverse-function monitors for OPML/ITMZ',
         'N generated heading trees with hostile bodies: exported items carry title and exact section bytes; html(import(opml(src))) = html(src) in snippet and complete mode (also via ITMZ); unescape(escape(T)) = T',
         'round trip judged only for properly nested headings, single-line metadata, sources without CR; expat normalises CR in attribute values'),
 'C16': ('strict UTF-8 validator over every textual output',
         'N slot documents mixing byte-special code points (trailing 0xA0, C2/C3 leads, 3/4-byte) with every syntax character in 61 syntactic positions x 8 textual formats (+ package members) x option variants x 7 languages',
         'inputs valid UTF-8 by construction'),
 'C20': ('metamorphic relations between executions (snippet/complete/default, metadata variants, key order, variables)',
         'N bodies x metadata blocks {none, control-only, arbitrary, mixed, YAML} x {html, latex, beamer, memoir}: five relations, 7-12 conversions per case',
         'control-key set taken from process_metadata_stack / documentation'),
 'C19': ('reference-model monitor: independent byte-vector model compared with DString after every operation, under ASan+UBSan',
         'N random operation sequences (<= 40 ops over the 13 public functions, boundary positions/lengths/sizes, NULL/NUL arguments, embedded NULs) in the core domain and in the SIZE_MAX overflow band: content, length, terminator, capacity and return values equal to the model after each operation',
         'empty search string and C-string reads over embedded NULs are outside the domain'),
}
EXTRA = {}
NA = []

man = dict(version=1,
           setup_cmd='python3 -m compileall -q lib props >/dev/null; python3 lib/build.py asan drv cli dstr_model pool_hist && python3 lib/build.py asan-nopool drv cost && python3 lib/build.py plain enumprobe cost drv && python3 lib/build.py cov cost && python3 lib/build.py tsan-nopool threads',
           hooks=dict(guard='MMD6_VERIF', enable='lib/build.py compiles /repo/src directly (no CMake) with -DMMD6_VERIF -DNDEBUG for every sanitizer variant; the harness programs define mmd6_verif_event / mmd6_verif_point',
                      baseline_off_cmd='./baseline_off.sh', source_commits=[hook_commit], add_only=True),
           engines=[dict(name='drv', path='harness/drv.c', serves_properties=sorted(k for k in CHECKS if k != 'C19'), kind_free_text='long-lived worker linked against each sanitizer build; request/reply over pipes; fd-2 capture, exit() wrap, hook event counters, returned-object probe, token-tree walker, engine slots for histories'),
                    dict(name='dstr_model', path='harness/dstr_model.c', serves_properties=['C19'], kind_free_text='native model-vs-implementation driver for DString')],
           checks=[], not_applicable=NA,
           notes='Runtime monitoring only (sanitizers + monitors over hooks, models and differential oracles); see DESIGN.md. known_findings.json lists recorded and fixed defects.')
for pid in sorted(CHECKS):
    tech, text, note = CHECKS[pid]
    man['checks'].append(dict(property_id=pid, quick_cmd='./check %s --tier quick' % pid, thorough_cmd='./check %s --tier thorough' % pid,
                              evidence_file='evidence/%s.json' % pid, replay_cmd_template='./check %s --replay {path}' % pid,
                              engine='dstr_model' if pid == 'C19' else 'drv',
                              level_claimed=dict(category='exploration', text=text, design_ref='DESIGN.md section 4 ' + pid), level_note=note, technique=tech))
allp = ['C%02d' % i for i in range(1, 21)]
for p in allp:
    if p not in CHECKS:
        NA.append(dict(property_id=p, reason='check not built yet in this revision (planned, see DESIGN.md section 4); not claimed until its monitor exists and is silent on the unchanged tree'))
json.dump(man, open(os.path.join(V, 'MANIFEST.json'), 'w'), indent=1)
print('wrote MANIFEST.json with', len(man['checks']), 'checks;', len(NA), 'not yet claimed')
