#!/usr/bin/env python3
"""Maintain known_findings.json (never run by checks).
  tools/finding.py add <property> <known|fixed> <key> <commit-or-> <what fails> [--replay file | --req variant op fmt ext lang flags arg0 [arg1..]]
"""
import sys, json, os, base64
sys.path.insert(0, os.path.dirname(os.path.dirname(os.path.abspath(__file__))))
from lib import drv as D
P = os.path.join(os.path.dirname(os.path.dirname(os.path.abspath(__file__))), 'known_findings.json')


def main():
    a = sys.argv[1:]
    db = json.load(open(P)) if os.path.exists(P) else dict(findings=[])
    if a[0] == 'add':
        prop, status, key, commit, what = a[1:6]
        rest = a[6:]
        wit = None
        if rest and rest[0] == '--replay':
            j = json.load(open(rest[1]))
            wit = j['case']
        elif rest and rest[0] == '--req':
            variant, op, fmt, ext, lang, flags = rest[1], rest[2], int(rest[3]), int(rest[4], 0), int(rest[5]), int(rest[6], 0)
            args = [x.encode('utf-8').decode('unicode_escape').encode('latin1') for x in rest[7:]]
            wit = dict(requests=[D.req_to_json(variant, op, fmt, ext, lang, flags, args)])
        e = dict(property=prop, key=key, status=status, what_fails=what)
        if commit != '-':
            e['commit'] = commit
        if wit:
            e['witness'] = wit
        db['findings'] = [x for x in db['findings'] if not (x['property'] == prop and x['key'] == key)] + [e]
        json.dump(db, open(P, 'w'), indent=1)
        print('added', prop, key, status)


main()
