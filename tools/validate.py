#!/usr/bin/env python3-vt
import json, jsonschema, glob, sys
m=json.load(open('/verif/MANIFEST.json')); s=json.load(open('/root/.vp/MANIFEST.schema.json'))
jsonschema.validate(m,s); print('manifest ok', len(m['checks']), 'checks')
s=json.load(open('/root/.vp/EVIDENCE.schema.json'))
for f in sorted(glob.glob('/verif/evidence/*.json')):
    try:
        jsonschema.validate(json.load(open(f)),s); print(f,'ok')
    except Exception as e:
        print(f,'INVALID',str(e)[:300])
