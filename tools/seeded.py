#!/usr/bin/env python3
"""Run the checks against the seeded changes kept under /verif/seeded/<name>/ (patch.diff + meta.json).

  tools/seeded.py [name ...] [--tier quick|thorough] [--all-checks]

For each seeded change: `git -C /repo apply patch.diff`, run the check(s) named in meta.json["checks"] (default: the
property it was written against) with evidence/replays redirected to a scratch directory (VERIF_OUT_DIR), record
exit code and new violation keys, then `git -C /repo checkout -- .`.  /repo must be clean before and is clean after.
Results are written to seeded/RESULTS.json and seeded/RESULTS.md.  Never run by a registered check.
"""
import os, sys, json, subprocess, tempfile, shutil, time, re
V = os.path.dirname(os.path.dirname(os.path.abspath(__file__)))
S = os.path.join(V, 'seeded')
REPO = '/repo'


def sh(cmd, **kw):
    return subprocess.run(cmd, capture_output=True, text=True, **kw)


def clean():
    return sh(['git', '-C', REPO, 'status', '--porcelain', '--untracked-files=no']).stdout.strip() == ''


def run_one(name, tier, extra_checks):
    d = os.path.join(S, name)
    meta = json.load(open(os.path.join(d, 'meta.json')))
    checks = list(meta.get('checks') or [meta['property']])
    for c in extra_checks:
        if c not in checks:
            checks.append(c)
    assert clean(), '/repo is not clean'
    ap = sh(['git', '-C', REPO, 'apply', os.path.join(d, 'patch.diff')])
    if ap.returncode:
        return dict(name=name, error='patch does not apply: ' + ap.stderr.strip()[:300])
    res = dict(name=name, property=meta['property'], tier=tier, checks={})
    try:
        for c in checks:
            out = tempfile.mkdtemp(prefix='mmd6-seeded-')
            t0 = time.time()
            env = dict(os.environ, VERIF_OUT_DIR=out, VERIF_TIER=tier, VERIF_SEED=os.environ.get('VERIF_SEED', '1'))
            cp = sh([os.path.join(V, 'check'), c, '--tier', tier], env=env, cwd=V)
            keys = re.findall(r'^\s+key=(\S+)', cp.stdout, re.M)
            res['checks'][c] = dict(exit=cp.returncode, detected=cp.returncode == 1 and 'VIOLATION property=' in cp.stdout, keys=sorted(set(keys))[:12],
                                    wall_s=round(time.time() - t0, 1), tail=cp.stdout.strip().splitlines()[-1:] if cp.stdout.strip() else cp.stderr.strip().splitlines()[-3:])
            shutil.rmtree(out, ignore_errors=True)
    finally:
        sh(['git', '-C', REPO, 'checkout', '--', '.'])
    assert clean()
    return res


def main():
    global REPO
    a = sys.argv[1:]
    scratch = None
    if '--scratch' in a:
        # same procedure on a scratch worktree of /repo (VERIF_REPO), for use while something else is building from /repo
        a.remove('--scratch')
        scratch = '/tmp/mmd6-wt-seeded-%d' % os.getpid()          # one worktree per invocation: several runs may be going on at once
        sh(['git', '-C', '/repo', 'worktree', 'remove', '--force', scratch])
        wt = sh(['git', '-C', '/repo', 'worktree', 'add', '--detach', scratch, 'HEAD'])
        assert wt.returncode == 0, wt.stderr
        REPO = scratch
        os.environ['VERIF_REPO'] = scratch
    try:
        _main(a)
    finally:
        if scratch:
            sh(['git', '-C', '/repo', 'worktree', 'remove', '--force', scratch])


def _main(a):
    tier = 'quick'
    if '--tier' in a:
        i = a.index('--tier')
        tier = a[i + 1]
        del a[i:i + 2]
    extra = []
    if '--also' in a:
        i = a.index('--also')
        extra = a[i + 1].split(',')
        del a[i:i + 2]
    names = a or sorted(n for n in os.listdir(S) if os.path.exists(os.path.join(S, n, 'patch.diff')))
    rp = os.path.join(S, 'RESULTS.json')
    allres = json.load(open(rp)) if os.path.exists(rp) else {}
    for n in names:
        r = run_one(n, tier, extra)
        prev = allres.get(n, {})
        if 'checks' in r and 'checks' in prev and prev.get('tier') == r.get('tier'):
            merged = dict(prev['checks'])
            merged.update(r['checks'])
            r['checks'] = merged
        allres = json.load(open(rp)) if os.path.exists(rp) else {}          # re-read: another invocation may have added rows meanwhile
        allres[n] = r
        print(json.dumps(r)[:600])
        json.dump(allres, open(rp, 'w'), indent=1, sort_keys=True)
    lines = ['# Seeded changes vs checks', '',
             'Each row: a change that breaks one property while compiling and passing the 345-document suite (written by an independent agent that saw only the',
             'property text), applied to /repo, checked, and undone.  `detected` = the check exited 1 with a VIOLATION line.', '',
             '| seeded change | property | mechanism | check | tier | detected | keys reported | wall s |', '|---|---|---|---|---|---|---|---|']
    for n in sorted(allres):
        r = allres[n]
        mp = os.path.join(S, n, 'meta.json')
        mech = json.load(open(mp)).get('mechanism', '') if os.path.exists(mp) else ''
        if 'error' in r:
            lines.append('| %s | | %s | | | ERROR %s | | |' % (n, mech, r['error']))
            continue
        for c, cr in sorted(r['checks'].items()):
            lines.append('| %s | %s | %s | %s | %s | %s | %s | %s |' % (n, r['property'], mech.replace('|', '\\|')[:160], c, r['tier'], 'yes' if cr['detected'] else ('NO (exit %s)' % cr['exit']),
                                                                   ', '.join('`%s`' % k for k in cr['keys'][:4]), cr['wall_s']))
    open(os.path.join(S, 'RESULTS.md'), 'w').write('\n'.join(lines) + '\n')


main()
