#!/bin/bash
# Runs the repository's own test suite with the verification guard OFF (no -DMMD6_VERIF),
# from a scratch copy of /repo's working tree (CMake's configure step rewrites README.md in
# the source directory, so the tree itself is never configured in place).
# Expected: 9 ctest entries (345 documents) pass; pathologic, pathologic-compat fail as in BASELINE.json.
set -u
REPO=${VERIF_REPO:-/repo}
T=$(mktemp -d /tmp/mmd6-baseline.XXXXXX)
trap 'rm -rf "$T"' EXIT
mkdir -p "$T/src"
rsync -a --exclude _build --exclude .git "$REPO/" "$T/src/" || exit 2
cmake -G Ninja -S "$T/src" -B "$T/src/_build" -DCMAKE_BUILD_TYPE=RelWithDebInfo > "$T/cmake.log" 2>&1 || { cat "$T/cmake.log"; exit 2; }
cmake --build "$T/src/_build" > "$T/build.log" 2>&1 || { tail -50 "$T/build.log"; exit 2; }
cd "$T/src/_build" && ctest -j8 --timeout 900 2>&1 | tee "$T/ctest.log" | tail -20
pass=$(grep -c ' Passed ' "$T/ctest.log")
fail=$(grep -E '^\s*[0-9]+/[0-9]+ Test' "$T/ctest.log" | grep -vc ' Passed ')
failed_names=$(grep -E '^\s*[0-9]+ - ' "$T/ctest.log" | awk '{print $3}' | sort | tr '\n' ' ')
echo "passed=$pass failed=$fail failed_names=$failed_names"
if [ "$pass" = "9" ] && [ "$failed_names" = "pathologic pathologic-compat " ]; then
  echo "BASELINE-OK (guard off): 9 ctest entries pass, only the two always-failing pathologic entries fail"
  exit 0
fi
echo "BASELINE-MISMATCH"
exit 1
