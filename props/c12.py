"""C12 -- accepting or rejecting CriticMarkup yields exactly the edited text.

Model: an edit script (Text | Add | Del | Hi with nesting, Sub(old,new), Com, stray markers that
cannot pair) is serialised to CriticMarkup; the expected accept / reject text is computed from the
script.  Oracles: whole-string and sub-range accept/reject = model; idempotence; CLI -a / -r renders
what the accepted / rejected text renders to.
"""
import os, subprocess, re
from lib import core, drv as D, build, clibatch

ID = 'C12'
OPEN = dict(add='{++', dele='{--', hi='{==', com='{>>', sub='{~~')
CLOSE = dict(add='++}', dele='--}', hi='==}', com='<<}', sub='~~}')
MARKERS = list(OPEN.values()) + list(CLOSE.values()) + ['~>']

ATOMS = ['alpha', 'beta ', ' gamma', 'x', ' ', '  ', '\n', '\n\n', 'line one\nline two', '\\{', '\\}', '{', '}', '*em*', '# not head', 'a+b', 'c-d', 'e=f', '1 < 2', '3 > 2',
         'tilde~x', 'é', '中', '- item', '> q', '`code`', '[l](u)', '&amp;', 'end.',
         'bs\\\\']           # an escaped backslash: what follows it (a marker, a brace) is not escaped


class Node:
    def __init__(self, kind, ch=None, text='', old='', new=''):
        self.kind, self.ch, self.text, self.old, self.new = kind, ch or [], text, old, new


def gen_text(rng):
    return ''.join(rng.choice(ATOMS) for _ in range(rng.randint(0, 3)))


def gen_nodes(rng, depth, allow, n=None):
    out = []
    for _ in range(n if n is not None else rng.randint(1, 5)):
        k = rng.random()
        if k < 0.4 or depth > 2:
            out.append(Node('text', text=gen_text(rng) or 'w'))
        elif k < 0.55 and 'add' in allow:
            out.append(Node('add', gen_nodes(rng, depth + 1, allow, rng.randint(0, 3))))
        elif k < 0.7 and 'dele' in allow:
            out.append(Node('dele', gen_nodes(rng, depth + 1, allow, rng.randint(0, 3))))
        elif k < 0.8 and 'hi' in allow:
            out.append(Node('hi', gen_nodes(rng, depth + 1, allow, rng.randint(0, 3))))
        elif k < 0.9 and 'sub' in allow:
            out.append(Node('sub', old=gen_text(rng), new=gen_text(rng)))
        elif 'com' in allow:
            out.append(Node('com', text=gen_text(rng)))
        else:
            out.append(Node('text', text=gen_text(rng) or 'v'))
    return out


def ser(nodes):
    s = ''
    for n in nodes:
        if n.kind == 'text':
            s += n.text
        elif n.kind == 'stray':
            s += n.text
        elif n.kind == 'sub':
            s += '{~~' + n.old + '~>' + n.new + '~~}'
        elif n.kind == 'com':
            s += '{>>' + n.text + '<<}'
        else:
            s += OPEN[n.kind] + ser(n.ch) + CLOSE[n.kind]
    return s


def apply(nodes, accept):
    s = ''
    for n in nodes:
        if n.kind in ('text', 'stray'):
            s += n.text
        elif n.kind == 'add':
            s += apply(n.ch, accept) if accept else ''
        elif n.kind == 'dele':
            s += '' if accept else apply(n.ch, accept)
        elif n.kind == 'hi':
            s += apply(n.ch, accept)
        elif n.kind == 'sub':
            s += n.new if accept else n.old
        elif n.kind == 'com':
            pass
    return s


def count_intended(nodes, c):
    for n in nodes:
        if n.kind == 'stray':
            c[n.text] += 1
        elif n.kind == 'sub':
            c['{~~'] += 1
            c['~>'] += 1
            c['~~}'] += 1
        elif n.kind == 'com':
            c['{>>'] += 1
            c['<<}'] += 1
        elif n.kind in OPEN:
            c[OPEN[n.kind]] += 1
            c[CLOSE[n.kind]] += 1
            count_intended(n.ch, c)


def marker_counts(s):
    return {m: len(re.findall(re.escape(m), s)) for m in MARKERS}


def gen_case(rng):
    """returns (nodes, has_stray) or None if the serialisation is ambiguous"""
    kinds = ['add', 'dele', 'hi', 'sub', 'com']
    stray_kinds = set()
    allow = set(kinds)
    if rng.random() < 0.35:
        # stray markers of a type only in documents without pairs of that type, and only openers or only closers per type
        for k in rng.sample(kinds, rng.randint(1, 2)):
            stray_kinds.add(k)
            allow.discard(k)
    nodes = gen_nodes(rng, 0, allow)
    for k in stray_kinds:
        side = rng.choice(['open', 'close', 'div'] if k == 'sub' else ['open', 'close'])
        mk = OPEN[k] if side == 'open' else (CLOSE[k] if side == 'close' else '~>')
        for _ in range(rng.randint(1, 2)):
            # top level only: inside a deletion/addition a stray would vanish with its container, which is fine but
            # placing it at top level keeps the expectation trivial
            nodes.insert(rng.randrange(len(nodes) + 1), Node('stray', text=mk))
    s = ser(nodes)
    import collections
    c = collections.Counter()
    count_intended(nodes, c)
    mc = marker_counts(s)
    if any(mc[m] != c.get(m, 0) for m in MARKERS):
        return None
    for acc in (True, False):
        e = apply(nodes, acc)
        mc2 = marker_counts(e)
        strays = collections.Counter(n.text for n in nodes if n.kind == 'stray')
        if any(mc2[m] != strays.get(m, 0) for m in MARKERS):
            return None
    return nodes, bool(stray_kinds)


def run_cli(cli, args, stdin):
    env = dict(os.environ, ASAN_OPTIONS='detect_leaks=0', UBSAN_OPTIONS='print_stacktrace=1')
    p = subprocess.run([cli] + args, input=stdin, stdout=subprocess.PIPE, stderr=subprocess.PIPE, env=env, timeout=60)
    return p.returncode, p.stdout


def site_of(nodes, accept, got, exp):
    """name the construct where the result first diverges (stable key part)"""
    i = 0
    while i < min(len(got), len(exp)) and got[i] == exp[i]:
        i += 1
    # which top-level node produced expected byte i?
    pos = 0
    for n in nodes:
        e = apply([n], accept).encode('utf-8')
        if pos + len(e) > i or n is nodes[-1]:
            return n.kind if n.kind != 'stray' else 'stray:' + n.text
        pos += len(e)
    return 'end'


def work(job):
    seed, lo, hi = job
    r = core.JobResult()
    cli = build.build('asan', ('cli',))['cli']
    with core.Session(r) as s:
        for i in range(lo, hi):
            rng = core.job_rng(seed, ID, i)
            g = gen_case(rng)
            if g is None:
                r.stats['discarded (unintended marker by juxtaposition)'] += 1
                continue
            nodes, has_stray = g
            src = ser(nodes).encode('utf-8')
            for accept in (True, False):
                name = 'accept' if accept else 'reject'
                exp = apply(nodes, accept).encode('utf-8')
                rq = D.req_to_json('asan', 'CRITIC', 0, 0, 0, 0 if accept else 1, [src])
                rep = s.call('asan', 'CRITIC', 0, 0, 0, 0 if accept else 1, [src], crash_is_violation=False)
                r.evaluations += 1
                if rep is None or rep.status:
                    continue
                if rep.out != exp:
                    r.violate('%s:%s' % (name, site_of(nodes, accept, rep.out, exp)), 'mmd_critic_markup_%s differs from the edit script' % name,
                              dict(requests=[rq], expected_b64=core.b64(exp)), 'source  : %s\nexpected: %s\ngot     : %s' % (core.show(src, 300), core.show(exp, 300), core.show(rep.out, 300)))
                    continue
                # idempotence
                rep2 = s.call('asan', 'CRITIC', 0, 0, 0, 0 if accept else 1, [rep.out], crash_is_violation=False)
                r.evaluations += 1
                if rep2 is not None and rep2.status == 0 and rep2.out != rep.out:
                    r.violate('%s:not-idempotent' % name, '%s applied twice differs from once' % name, dict(requests=[D.req_to_json('asan', 'CRITIC', 0, 0, 0, 0 if accept else 1, [rep.out])]),
                              'once : %s\ntwice: %s' % (core.show(rep.out, 300), core.show(rep2.out, 300)))
                # sub-range covering whole top-level nodes a..b
                if len(nodes) > 1:
                    a = rng.randrange(len(nodes))
                    b = rng.randrange(a, len(nodes)) + 1
                    pre, mid, post = ser(nodes[:a]).encode(), nodes[a:b], ser(nodes[b:]).encode()
                    exp_r = pre + apply(mid, accept).encode('utf-8') + post
                    st, ln = len(pre), len(ser(mid).encode('utf-8'))
                    rq = D.req_to_json('asan', 'CRITIC', 0, 0, 0, (0 if accept else 1) | (1 << 4), [src, st, ln])
                    rep3 = s.call('asan', 'CRITIC', 0, 0, 0, (0 if accept else 1) | (1 << 4), [src, st, ln], crash_is_violation=False)
                    r.evaluations += 1
                    if rep3 is not None and rep3.status == 0 and rep3.out != exp_r:
                        r.violate('%s-range:%s' % (name, site_of(mid, accept, rep3.out[len(pre):], exp_r[len(pre):])), 'mmd_critic_markup_%s_range(%d,%d) differs from the edit script' % (name, st, ln),
                                  dict(requests=[rq], expected_b64=core.b64(exp_r)), 'source  : %s\nexpected: %s\ngot     : %s' % (core.show(src, 300), core.show(exp_r, 300), core.show(rep3.out, 300)))
                # arbitrary sub-range (cutting through marks): only what lies inside the range is looked at, so the result is the string with
                # that slice replaced by the slice processed on its own
                if src and all(b < 128 for b in src):
                    for _ in range(2):
                        st = rng.randrange(len(src))
                        ln = rng.randrange(0, len(src) - st + 1)
                        if rng.random() < 0.5:
                            # end the range right inside / right before a marker
                            ends = [m.start() + k for m in re.finditer(rb'\+\+\}|--\}|~~\}|<<\}|==\}|~>', src) for k in (0, 1, 2, 3) if m.start() + k > st]
                            if ends:
                                ln = rng.choice(ends) - st
                        sub = src[st:st + ln]
                        rq_r = D.req_to_json('asan', 'CRITIC', 0, 0, 0, (0 if accept else 1) | (1 << 4), [src, st, ln])
                        rep_r = s.call('asan', 'CRITIC', 0, 0, 0, (0 if accept else 1) | (1 << 4), [src, st, ln], crash_is_violation=False)
                        rep_w = s.call('asan', 'CRITIC', 0, 0, 0, 0 if accept else 1, [sub], crash_is_violation=False)
                        r.evaluations += 2
                        r.stats['arbitrary_ranges_compared'] += 1
                        if rep_r is None or rep_w is None or rep_r.status or rep_w.status:
                            continue
                        exp_a = src[:st] + rep_w.out + src[st + ln:]
                        if rep_r.out != exp_a:
                            r.violate('%s-range:outside-range-touched' % name, 'mmd_critic_markup_%s_range(%d,%d) differs from the string with that slice processed on its own' % (name, st, ln),
                                      dict(requests=[rq_r]), 'source  : %s\nslice   : %s\nexpected: %s\ngot     : %s' % (core.show(src, 300), core.show(sub, 120), core.show(exp_a, 300), core.show(rep_r.out, 300)))
                            break
                # CLI -a/-r renders what the edited text renders to
                if not has_stray and i % 20 == 0:
                    fmt = rng.choice(['html', 'latex', 'fodt'])
                    rc1, o1 = run_cli(cli, ['-t', fmt, '-a' if accept else '-r'], src)
                    rc2, o2 = run_cli(cli, ['-t', fmt], exp)
                    r.evaluations += 2
                    r.stats['cli_pairs'] += 1
                    if rc1 == 0 and rc2 == 0 and o1 != o2:
                        r.violate('cli-%s:%s' % (name, fmt), 'multimarkdown %s -t %s differs from rendering the %sed text' % ('-a' if accept else '-r', fmt, name),
                                  dict(stdin_b64=core.b64(src), edited_b64=core.b64(exp), fmt=fmt), 'with flag: %s\nedited   : %s' % (core.show(o1[-400:], 400), core.show(o2[-400:], 400)))
            if i % 60 == 0:
                # the same pre-pass must run for every file of a batch (-b), not only for the first
                clibatch.batch_vs_single(r, cli, rng, {'critic'} | ({'title'} if rng.random() < 0.5 else set()), [['-a'], ['-r'], ['-a'], ['-r'], []], keyprefix='cli-batch-critic-differs')
            kinds = set()

            def walk(ns, d):
                for n in ns:
                    kinds.add((n.kind, d > 0))
                    walk(n.ch, d + 1)
            walk(nodes, 0)
            if any(k != 'text' for k, _ in kinds):
                r.distinct.add(core.h64(src))
            for k in kinds:
                r.sets['mark_kinds (kind, nested)'].add('%s%s' % (k[0], ':nested' if k[1] else ''))
            if i - lo < 1:
                r.samples.append(dict(source=core.show(src, 200), accept=core.show(apply(nodes, True), 200), reject=core.show(apply(nodes, False), 200)))
    return r


def work_many_openers(job):
    """N unmatched openers in front of an edit script (N around the pairing code's 1000-entry shortcut): the openers stay, every change is applied"""
    seed, lo, hi = job
    r = core.JobResult()
    with core.Session(r, timeout=60.0) as s:
        for i in range(lo, hi):
            rng = core.job_rng(seed, ID, 'openers', i)
            g = None
            for _ in range(20):
                g = gen_case(rng)
                if g is not None and not g[1]:
                    break
            if g is None or g[1]:
                continue
            nodes = g[0]
            n = rng.choice([990, 999, 1000, 1001, 1002, 1200, 2500])
            opener = rng.choice(['{== ', '{++ ', '{-- ', '{>> ', '{~~ ', '{== x {++ '])
            pre = (opener * n).encode()
            src = pre + ser(nodes).encode('utf-8')
            for accept in (True, False):
                name = 'accept' if accept else 'reject'
                exp = pre + apply(nodes, accept).encode('utf-8')
                rq = D.req_to_json('asan', 'CRITIC', 0, 0, 0, 0 if accept else 1, [src])
                rep = s.call('asan', 'CRITIC', 0, 0, 0, 0 if accept else 1, [src], crash_is_violation=False)
                r.evaluations += 1
                r.stats['scripts_after_many_openers'] += 1
                if rep is None or rep.status:
                    continue
                if rep.out != exp:
                    k = 0
                    while k < min(len(exp), len(rep.out)) and exp[k] == rep.out[k]:
                        k += 1
                    r.violate('%s:after-%s-unmatched-openers' % (name, 'fewer-than-1000' if n < 1000 else '1000-or-more'), '%s after %d unmatched %r openers differs from the edit script at byte %d' % (name, n, opener, k),
                              dict(requests=[rq]), 'expected: ...%s\ngot     : ...%s' % (core.show(exp[max(len(pre) - 10, k - 40):k + 120], 200), core.show(rep.out[max(len(pre) - 10, k - 40):k + 120], 200)))
            r.distinct.add(core.h64('openers', src))
    return r


def main():
    chk = core.Check(ID)
    n = chk.scale(20000, 500000)
    chk.rule = ('edit script i = f(VERIF_SEED, i): 1-5 top-level nodes, nesting <= 3 inside additions/deletions/highlights, substitutions and comments with text payloads '
                '(incl. empty, escaped braces, line and paragraph breaks, multi-byte), stray markers only of types that have no pair in the document; cases whose '
                'serialisation or expectation contains an unintended marker are discarded and counted; whole-string, idempotence, sub-range over whole top-level nodes, '
                'CLI -a/-r every 20th case; non-trivial = at least one mark; distinct = distinct serialisations')
    chk.assumptions = ['well-formed = properly nested marks; a stray marker is one whose type has no pair anywhere in the document']
    chunk = max(20, n // 64)
    chk.run_jobs(work, [(chk.seed, lo, min(n, lo + chunk)) for lo in range(0, n, chunk)])
    no = chk.scale(320, 6000)
    chk.run_jobs(work_many_openers, [(chk.seed, lo, min(no, lo + 20)) for lo in range(0, no, 20)])
    return chk.finish()
