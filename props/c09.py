"""C09 -- package outputs are valid archives with the required members.

Oracles (Python zipfile + expat + json): archive integrity (EOCD at the end, every CRC), required
members and their order/method, manifests naming what exists, main document = the plain rendering
(asset paths and EPUB's omitted in-document TOC aside), asset references = the engine's asset table
>= asset members, stored assets byte-identical to the files, same URL -> same path.
"""
import subprocess, io, os, re, json, zipfile, tempfile, shutil, zlib
import xml.parsers.expat as expat
from lib import core, gen, gendoc, build, drv as D

ID = 'C09'
UUID = r'[0-9a-fA-F]{8}-[0-9a-fA-F]{4}-[0-9a-fA-F]{4}-[0-9a-fA-F]{4}-[0-9a-fA-F]{12}'
PNG = b'\x89PNG\r\n\x1a\n' + bytes(range(256)) * 3
FILES = {'pic.png': PNG, 'other.png': b'\x89PNG' + PNG[::-1], 'sub/deep.jpg': b'\xff\xd8\xff' + b'J' * 300, 'style.css': b'p { margin: 0 }\n', 'x.css': b'a{}', 'photo 1.png': PNG + b'1',
         'tiny.gif': b'GIF89a', 'empty.png': b''}


def _noise(n, seed):
    # incompressible bytes (deflate falls back to stored blocks; members larger than the 32 KiB window matter)
    import random as _r
    rnd = _r.Random(seed)
    return bytes(rnd.getrandbits(8) for _ in range(n))


FILES.update({'big40k.png': b'\x89PNG' + _noise(40000, 1), 'big100k.jpg': b'\xff\xd8\xff' + _noise(100000, 2), 'edge32k.png': _noise(32768, 3), 'zeros70k.png': b'\0' * 70000,
              'three.gif': b'GIF', 'big.css': (b'p{margin:0}\n' * 6000)})


def make_dir():
    t = tempfile.mkdtemp(prefix='mmdv-c09-', dir=D.SCRATCH_ROOT)
    os.makedirs(os.path.join(t, 'sub'))
    for k, v in FILES.items():
        open(os.path.join(t, k), 'wb').write(v)
    return t


def gen_src(rng):
    parts = []
    meta = []
    if rng.random() < 0.7:
        meta.append('Title: %s' % rng.choice(['Plain', 'A & B', 'T <i>x</i>', '"Q" \'s', 'Ünï çödé', 'a' * 80]))
    if rng.random() < 0.4:
        meta.append('Author: %s' % rng.choice(['Me', 'A & B <c@d.e>', 'X "Y" Z']))
    if rng.random() < 0.4:
        meta.append('css: %s' % rng.choice(['style.css', 'x.css', 'missing.css', 'http://example.com/r.css', 'big.css']))
    if rng.random() < 0.2:
        meta.append('language: %s' % rng.choice(['de', 'fr', 'en']))
    urls = ['pic.png', 'other.png', 'sub/deep.jpg', 'missing.png', 'photo 1.png', 'tiny.gif', 'empty.png', 'http://example.com/remote.png', 'u' * rng.choice([50, 500, 1200]) + '.png', 'pic.png',
            'big40k.png', 'big100k.jpg', 'edge32k.png', 'zeros70k.png', 'three.gif']
    nimg = rng.choice([0, 1, 1, 2, 3, 5])
    for i in range(rng.randint(1, 5)):
        r = rng.random()
        if r < 0.35:
            parts.append('%s Heading %d' % ('#' * rng.randint(1, 4), i))
        elif r < 0.5:
            parts.append(gendoc.serialize(gendoc.Gen(rng, sentinels=False).doc(nblocks=2)).strip('\n'))
        else:
            parts.append('Para %d with *text* and `code`.' % i)
    for i in range(nimg):
        u = rng.choice(urls)
        form = rng.random()
        if form < 0.3:
            parts.append('![alt %d](%s)' % (i, u))
        elif form < 0.5:
            parts.append('![alt %d](%s "title %d")' % (i, u, i))
        elif form < 0.65:
            parts.append('Inline ![alt %d](%s) image and ![again](%s).' % (i, u, u))
        elif form < 0.85:
            parts.append('![ref %d][img%d]\n\n[img%d]: %s "rt" width=40px' % (i, i, i, u))
        else:
            parts.append('![alt %d](<%s>)' % (i, u))
    if rng.random() < 0.3:
        # everything that is rendered into a list at the end of the main document
        k = rng.randrange(5)
        parts.append(['Cited[#c1] and [#c2;].\n\n[#c1]: Doe. *Book*.\n\n[#c2]: Roe. *Paper*.', 'Note[^n1] and inline[^an inline note].\n\n[^n1]: The note.',
                      'A [?term] here.\n\n[?term]: Its definition.', 'The AB1 abbreviation.\n\n[>AB1]: Abbreviation One', 'Mixed[^m][#c9] [?g].\n\n[^m]: n\n\n[#c9]: c\n\n[?g]: d'][k])
    if rng.random() < 0.25:
        # text that a formatting function would read as directives: package members are assembled from pieces, and every piece is data
        pct = rng.choice(['About 50% of the samples and 20%d more, 30%x, 100%s sure; 5%c 7%5$s %%', 'rate %d%% %s %10.3f %p %ld %zu', 'path C:\\\\dir\\\\%USER%\\\\file 100%', '%1$s %2$d %*d'])
        parts.append(pct)
        if rng.random() < 0.4:
            meta.append('Subtitle: 100%s %d%% done')
    if rng.random() < 0.15:
        parts.append('again[^rn] ![x1](pic.png) and[^rn] ![x2](other.png) and[^rn] ![x3](tiny.gif)\n\n[^rn]: called three times')
    if rng.random() < 0.25:
        parts.insert(rng.randrange(len(parts) + 1), '{{TOC}}')
    rng.shuffle(parts)
    src = ('\n'.join(meta) + '\n\n' if meta else '') + '\n\n'.join(parts) + '\n'
    return src.encode('utf-8')


def xml_ok(b):
    p = expat.ParserCreate()
    try:
        p.Parse(b, True)
        return True
    except expat.ExpatError:
        return False


def attr_values(b, pat):
    return [m.decode('utf-8', 'replace') for m in re.findall(pat, b)]


class Judge:
    def __init__(self, r, fname, rq, src):
        self.r, self.fname, self.rq, self.src = r, fname, rq, src

    randomised = False

    def bad(self, key, what, detail=''):
        if self.randomised and key == 'main-differs':
            return          # --random / --unique: the anchors differ from run to run by design, the reference rendering cannot be byte-compared
        self.r.violate('%s:%s' % (self.fname, key), '%s: %s' % (self.fname, what), dict(requests=[self.rq]), (detail + '\nsource: ' + core.show(self.src, 500))[:3000])


def check_package(r, s, rng, fname, src, tdir, with_dir):
    fmt = D.FMT[fname]
    ext = D.EXT_CLI | rng.choice([0, 0, 0, 0, D.EXT['RANDOM_FOOT'], D.EXT['RANDOM_LABELS'], D.EXT['RANDOM_FOOT'] | D.EXT['RANDOM_LABELS']])
    rq = D.req_to_json('asan', 'ASSETS', fmt, ext, 0, 1 if with_dir else 0, [src, tdir])
    rep = s.call('asan', 'ASSETS', fmt, ext, 0, 1 if with_dir else 0, [src, tdir], crash_is_violation=True)
    r.evaluations += 1
    if rep is None or rep.status:
        r.stats['crashed/exited (C01/C02 territory)'] += 1
        return
    data, table_raw = rep.fields[0], rep.fields[1].decode('utf-8', 'replace')
    J = Judge(r, fname, rq, src)
    J.randomised = bool(ext & (D.EXT["RANDOM_FOOT"] | D.EXT["RANDOM_LABELS"]))
    table = [tuple(l.split('\t')) for l in table_raw.split('\n') if l]
    # ---- archive integrity
    if data[-22:-18] != b'PK\x05\x06' and data.rfind(b'PK\x05\x06') != len(data) - 22:
        J.bad('no-eocd-at-end', 'end-of-central-directory record is not at the end of the returned bytes', repr(data[-40:]))
        return
    try:
        z = zipfile.ZipFile(io.BytesIO(data))
    except Exception as e:
        J.bad('unreadable', 'not a readable zip archive: %s' % e)
        return
    names = z.namelist()
    contents = {}
    for info in z.infolist():
        try:
            contents[info.filename] = z.read(info.filename)
        except Exception as e:
            cls = 'asset' if re.search(UUID, info.filename) else info.filename
            J.bad('crc:%s' % cls, 'member %s fails its CRC / cannot be inflated: %s' % (info.filename, e))
            return
    if len(set(names)) != len(names):
        J.bad('duplicate-member', 'duplicate member names: %s' % sorted(n for n in names if names.count(n) > 1))
    r.stats['archives_verified'] += 1
    r.stats['members_crc_checked'] += len(names)
    # ---- required members
    main_doc = None
    asset_prefix = None
    if fname == 'epub':
        asset_prefix = 'OEBPS/assets/'
        if not names or names[0] != 'mimetype':
            J.bad('mimetype-not-first', 'first member is %r, not mimetype' % (names[0] if names else None))
        elif contents['mimetype'] != b'application/epub+zip':
            J.bad('mimetype-content', 'mimetype member holds %r' % contents['mimetype'])
        c = contents.get('META-INF/container.xml')
        if c is None or b'full-path="OEBPS/main.opf"' not in c:
            J.bad('container', 'META-INF/container.xml missing or not naming OEBPS/main.opf')
        opf = contents.get('OEBPS/main.opf')
        if opf is None:
            J.bad('no-opf', 'OEBPS/main.opf missing')
        else:
            hrefs = attr_values(opf, rb'<item [^>]*href="([^"]*)"')
            for need in ('nav.xhtml', 'main.xhtml'):
                if need not in hrefs:
                    J.bad('opf-manifest', 'package document does not list %s (lists %s)' % (need, hrefs))
            for h in hrefs:
                if 'OEBPS/' + h not in contents:
                    J.bad('opf-manifest-dangling', 'package document lists %s which is not in the archive' % re.sub(UUID, 'UUID', h))
        for need in ('OEBPS/nav.xhtml', 'OEBPS/main.xhtml'):
            if need not in contents:
                J.bad('missing-member', '%s missing' % need)
        main_doc = contents.get('OEBPS/main.xhtml')
    elif fname == 'odt':
        asset_prefix = 'Pictures/'
        info0 = z.infolist()[0] if z.infolist() else None
        if info0 is None or info0.filename != 'mimetype':
            J.bad('mimetype-not-first', 'first member is %r' % (info0.filename if info0 else None))
        else:
            if info0.compress_type != zipfile.ZIP_STORED:
                J.bad('mimetype-not-stored', 'mimetype is compressed (method %d)' % info0.compress_type)
            if contents['mimetype'] != b'application/vnd.oasis.opendocument.text':
                J.bad('mimetype-content', 'mimetype holds %r' % contents['mimetype'])
        man = contents.get('META-INF/manifest.xml')
        for need in ('content.xml', 'styles.xml', 'meta.xml', 'settings.xml'):
            if need not in contents:
                J.bad('missing-member', '%s missing' % need)
            elif man is not None and ('full-path="%s"' % need).encode() not in man:
                J.bad('manifest-omits', 'manifest.xml does not list %s' % need)
        if man is None:
            J.bad('missing-member', 'META-INF/manifest.xml missing')
        else:
            for p in attr_values(man, rb'manifest:full-path="([^"]*)"'):
                if p not in ('/',) and p not in contents and p.rstrip('/') + '/' not in names:
                    # an image that could not be read is still listed: consistent with the asset table, which is all the
                    # property asks of asset paths -- counted, not judged (DESIGN 9)
                    r.stats['odt manifest entries for assets that could not be stored (not judged)'] += 1
        main_doc = contents.get('content.xml')
    elif fname in ('bundlezip', 'textbundle'):
        asset_prefix = 'assets/'
        ij = contents.get('info.json')
        if ij is None:
            J.bad('missing-member', 'info.json missing')
        else:
            try:
                json.loads(ij.decode('utf-8'))
            except Exception as e:
                J.bad('info-json', 'info.json is not valid JSON: %s' % e)
        if not any(n.startswith('text.') for n in names):
            J.bad('missing-member', 'no text.* member')
        main_doc = contents.get('text.markdown')
    elif fname == 'itmz':
        if 'mapdata.xml' not in contents:
            J.bad('missing-member', 'mapdata.xml missing')
        main_doc = contents.get('mapdata.xml')
    if main_doc is None:
        return
    # ---- main document = plain rendering
    if fname == 'epub':
        rep2 = s.call('asan', 'CONVERT', D.FMT['html'], ext | D.EXT['COMPLETE'], 0, 1 | (1 << 4), [src], crash_is_violation=False)
        r.evaluations += 1
        if rep2 is not None and rep2.status == 0:
            plain = rep2.out
            got = main_doc
            # map asset paths back to urls, drop the in-document TOC from the plain rendering
            back = {('assets/%s' % p): u for u, p in table}
            got_n = re.sub(('assets/' + UUID).encode(), lambda m: html_attr(back.get(m.group(0).decode(), m.group(0).decode())).encode(), got)
            plain_n = re.sub(rb'<div class="TOC">.*?</div>\n*', b'', plain, flags=re.S)
            if squeeze(got_n) != squeeze(plain_n):
                J.bad('main-differs', 'OEBPS/main.xhtml is not the complete-HTML rendering (asset paths mapped back, TOC dropped)', diff(squeeze(plain_n), squeeze(got_n)))
            else:
                r.stats['main_documents_equal'] += 1
    elif fname == 'odt':
        rep2 = s.call('asan', 'ASSETS', D.FMT['fodt'], ext, 0, 1 if with_dir else 0, [src, tdir], crash_is_violation=False)
        r.evaluations += 1
        if rep2 is not None and rep2.status == 0:
            def body(b):
                m = re.search(rb'<office:body>(.*)</office:body>', b, re.S)
                return m.group(1) if m else None
            b1, b2 = body(main_doc), body(rep2.fields[0])
            if b1 is None or b2 is None:
                J.bad('no-body', 'content.xml or the flat document has no office:body')
            else:
                xesc = lambda u: u.replace('&', '&amp;').replace('<', '&lt;').replace('>', '&gt;').replace('"', '&quot;')      # the flat writer escapes the URL it prints
                back = {('Pictures/%s' % p): xesc(u) for u, p in table}
                n1 = re.sub(('Pictures/' + UUID).encode(), lambda m: back.get(m.group(0).decode(), m.group(0).decode()).encode(), b1)
                n2 = b2
                n2 = re.sub(rb'<office:binary-data>.*?</office:binary-data>', b'', n2, flags=re.S)
                if squeeze(n1) != squeeze(n2) and b'office:binary-data' not in b2:
                    J.bad('main-differs', 'content.xml body differs from the flat OpenDocument body', diff(squeeze(n2), squeeze(n1)))
                else:
                    r.stats['main_documents_equal'] += 1
    elif fname in ('bundlezip', 'textbundle'):
        back = {('assets/%s' % p): u for u, p in table}
        got_n = re.sub(('assets/' + UUID).encode(), lambda m: back.get(m.group(0).decode(), m.group(0).decode()).encode(), main_doc)
        if got_n != src:
            J.bad('main-differs', 'text.markdown is not the source with asset paths substituted', diff(src, got_n))
        else:
            r.stats['main_documents_equal'] += 1
        th = contents.get('text.html')
        if th is None:
            J.bad('missing-member', 'text.html missing')
    elif fname == 'itmz':
        rep2 = s.call('asan', 'CONVERT', fmt, ext, 0, 2 | (0 << 4), [src], crash_is_violation=False)
        r.evaluations += 1
        if rep2 is not None and rep2.status == 0:
            if re.sub(UUID.encode(), b'UUID', rep2.out.rstrip(b'\n')) != re.sub(UUID.encode(), b'UUID', main_doc.rstrip(b'\n')):
                J.bad('main-differs', 'mapdata.xml differs from the iThoughts text rendering', diff(rep2.out, main_doc))
            else:
                r.stats['main_documents_equal'] += 1
    # ---- assets
    if asset_prefix:
        refpat = (asset_prefix.split('/')[-2] + '/' + UUID).encode()
        refs = set(m.decode() for m in re.findall(refpat, main_doc))
        tab_paths = {}
        for u, p in table:
            tab_paths.setdefault(p, u)
        table_refs = set('%s/%s' % (asset_prefix.split('/')[-2], p) for _, p in table)
        members = set(n[len(asset_prefix) - len(asset_prefix.split('/')[-2]) - 1:] for n in names if re.search(UUID, n) and n.startswith(asset_prefix))
        urls = [u for u, _ in table]
        if len(set(urls)) != len(urls):
            J.bad('asset-url-twice', 'the same url appears twice in the asset table: %s' % table_raw)
        if not refs <= table_refs:
            J.bad('asset-ref-unknown', 'main document references asset paths that are not in the asset table', 'refs %s\ntable %s' % (sorted(refs - table_refs), table_raw))
        if not members <= table_refs:
            J.bad('asset-member-unknown', 'archive holds asset members that are not in the asset table', '%s' % sorted(members - table_refs))
        # every url of the source that exists as a file must be referenced through its asset path, stored, and byte-identical
        if with_dir:
            for u, p in table:
                fpath = os.path.join(tdir, u)
                if os.path.isfile(fpath) and os.path.getsize(fpath) > 0:
                    mname = asset_prefix + p
                    if mname not in contents:
                        J.bad('asset-not-stored', 'asset %s exists in the directory but is not in the archive' % u)
                    elif contents[mname] != open(fpath, 'rb').read():
                        J.bad('asset-bytes-differ', 'stored asset for %s differs from the file (%d vs %d bytes)' % (u, len(contents[mname]), os.path.getsize(fpath)))
                    else:
                        r.stats['assets_byte_identical'] += 1
            # image urls in the source that name an existing file must not survive un-substituted in the main document
            if fname in ('bundlezip', 'textbundle'):
                for u in set(re.findall(rb'\]\(<?([^)\s>]+)', src)) | set(re.findall(rb'^\[img\d+\]: (\S+)', src, re.M)):
                    us = u.decode('utf-8', 'replace')
                    if os.path.isfile(os.path.join(tdir, us)) and re.search(rb'\]\(<?' + re.escape(u) + rb'[)\s>]', main_doc):
                        J.bad('asset-path-not-substituted', 'text.markdown still refers to %s although it was stored as an asset' % us, core.show(main_doc, 600))
        r.stats['asset_tables_checked'] += 1
        r.stats['asset_references'] += len(refs)


def html_attr(u):
    # the flat HTML rendering writes destinations through the writer's escaping (image src too, since the repair of the raw src)
    return u.replace('&', '&amp;').replace('"', '&quot;').replace('<', '&lt;').replace('>', '&gt;')


def squeeze(b):
    return re.sub(rb'\s+', b' ', b).strip()


def diff(a, b):
    i = 0
    while i < min(len(a), len(b)) and a[i] == b[i]:
        i += 1
    return 'first difference at %d: expected %s | got %s' % (i, core.show(a[max(0, i - 60):i + 80]), core.show(b[max(0, i - 60):i + 80]))


UUID_RE = re.compile(r'[0-9a-fA-F]{8}-?[0-9a-fA-F]{4}-?[0-9a-fA-F]{4}-?[0-9a-fA-F]{4}-?[0-9a-fA-F]{12}')


def members(blob):
    z = zipfile.ZipFile(io.BytesIO(blob))
    return sorted((UUID_RE.sub('UUID', n), z.getinfo(n).file_size) for n in z.namelist())


def cli_slice(r, s, rng, src, tdir):
    """the command line tool, given the document by path (bare name, path with a directory part, absolute path), must find the same
    assets next to the document as the library does when handed that directory"""
    if b'{{' in src.replace(b'{{TOC}}', b''):
        return
    cli = build.build('asan', ('cli',))['cli']
    fname = rng.choice(['epub', 'bundlezip', 'odt'])
    fmt = D.FMT[fname]
    rep = s.call('asan', 'CONVERT', fmt, D.EXT_CLI, 0, 1 | (1 << 4) | (1 << 8), [src, tdir], crash_is_violation=False)
    r.evaluations += 1
    if rep is None or rep.status:
        return
    try:
        ref = members(rep.out)
    except Exception:
        return
    doc = os.path.join(tdir, 'cli_doc.md')
    open(doc, 'wb').write(src)
    out = os.path.join(tdir, 'cli_out.bin')
    parent, base = os.path.dirname(tdir), os.path.basename(tdir)
    forms = [('bare-name', tdir, 'cli_doc.md'), ('relative-with-directory', parent, os.path.join(base, 'cli_doc.md')), ('absolute', parent, doc), ('dot-slash', tdir, './cli_doc.md')]
    env = dict(os.environ, ASAN_OPTIONS='detect_leaks=0:abort_on_error=0', UBSAN_OPTIONS='print_stacktrace=1')
    try:
        for form, cwd, arg in forms:
            if os.path.exists(out):
                os.unlink(out)
            p = subprocess.run([cli, '-t', fname, '-o', out, arg], stdout=subprocess.PIPE, stderr=subprocess.PIPE, cwd=cwd, env=env, timeout=120)
            r.evaluations += 1
            r.stats['cli_package_runs'] += 1
            if p.returncode != 0 or not os.path.exists(out):
                r.stats['cli run failed (C01/C06 territory)'] += 1
                continue
            try:
                got = members(open(out, 'rb').read())
            except Exception:
                r.violate('cli:%s:unreadable' % fname, 'multimarkdown -t %s -o wrote an unreadable archive (%s path)' % (fname, form), dict(source_b64=core.b64(src), form=form))
                continue
            if got != ref:
                r.violate('cli:assets-differ:%s' % form, 'multimarkdown -t %s given the document as a %s path packs different members than the library given the document directory: %s vs %s' %
                          (fname, form, [g for g in got if g not in ref][:4], [g for g in ref if g not in got][:4]), dict(source_b64=core.b64(src), form=form, format=fname), core.show(src, 400))
    finally:
        for f in (doc, out):
            if os.path.exists(f):
                os.unlink(f)


def work(job):
    seed, lo, hi = job
    r = core.JobResult()
    tdir = make_dir()
    try:
        with core.Session(r) as s:
            for i in range(lo, hi):
                rng = core.job_rng(seed, ID, i)
                src = gen_src(rng)
                for fname in ('epub', 'odt', 'bundlezip', 'itmz') + (('textbundle',) if i % 5 == 0 else ()):
                    check_package(r, s, rng, fname, src, tdir, with_dir=rng.random() < 0.75)
                if i % 8 == 0:
                    cli_slice(r, s, rng, src, tdir)
                if b'![' in src:
                    r.distinct.add(core.h64(src))
                r.stats['documents'] += 1
                if i - lo < 1:
                    r.samples.append(dict(source=core.show(src, 300)))
    finally:
        shutil.rmtree(tdir, ignore_errors=True)
    return r


def main():
    chk = core.Check(ID)
    n = chk.scale(4000, 60000)
    chk.rule = ('document i = f(VERIF_SEED, i): metadata (titles/authors with reserved characters, css present/missing/remote), headings, generated blocks, 0-5 images (inline, '
                'reference, titled, angle-bracketed, repeated url, missing file, empty file, remote, 1200-byte url, url with a space) and optional {{TOC}} x '
                '{epub, odt, bundlezip, itmz, textbundle} x {directory given, NULL}; non-trivial = document with >= 1 image; distinct = distinct sources')
    chk.assumptions = ['zip reading by Python zipfile (CRC on read)', 'plain rendering used as reference is produced by the same library (differential)']
    chunk = max(10, n // 64)
    chk.run_jobs(work, [(chk.seed, lo, min(n, lo + chunk)) for lo in range(0, n, chunk)])
    return chk.finish()
