"""C17 -- independent conversions may run concurrently when the pool is disabled.

harness/threads.c (library built with -DDISABLE_OBJECT_POOL -fsanitize=thread): T threads, each with
its own engines, convert seed-determined streams of (document, format, extensions); reference bytes
are computed serially first; yields are injected at the MMD6_POINT hooks.  Monitors: ThreadSanitizer
reports (deduplicated by object / function pair), per-thread bytes == serial bytes, and the number
of conversions that really overlapped in time.
"""
import os, re, struct, subprocess, tempfile, shutil, glob
from lib import core, gen, gendoc, build, drv as D

ID = 'C17'


NSPECIAL = 12          # hand-written documents at the head of docs_for()


def docs_for(rng):
    docs = [b'mail <me@example.org> and <you@example.com>\n', b'x[^a] y[^b]\n\n[^a]: one\n\n[^b]: two\n', b'# H #\n\n{{TOC}}\n\n## H2 ##\n\n[H][]\n',
            b'Title: T\nAuthor: A\n\n"quoted" -- text...\n\n| a | b |\n|---|---|\n| c | d |\n', b'![img](p.png "t")\n\n[#c1]\n\n[#c1]: Cite.\n', b'{++a++}{--b--} `c` $x$\n',
            # raw-source filters naming several formats, abbreviations, glossaries, languages: library helpers with process-wide state (strtok, static buffers) show here
            b' '.join(b'`<b>H%d</b>`{=latex html} `\\emph{L%d}`{=html, latex; odt}' % (i, i) for i in range(60)) + b'\n',
            b'`<b>H1</b>`{=latex html} and `\\textbf{B0}`{=html latex beamer} `<i>o</i>`{=odt, html}\n\n```{=html latex}\n<i>blk1</i>\n```\n',
            b'x `<u>H2</u>`{=html;latex} y `Z2`{=memoir beamer latex}\n\n```{=latex html odt}\nblk2 & raw\n```\n\n`only`{=html}\n',
            b'language: de\n\n"Zitat" [^n]\n\n[^n]: Fu\xc3\x9fnote\n', b'language: fr\nquotes language: es\n\n"citation" \'x\' [#c2]\n\n[#c2]: R\xc3\xa9f.\n',
            b'The HTML and CSS terms [?glx].\n\n[>HTML]: Hypertext\n\n[>CSS]: Sheets\n\n[?glx]: gloss\n']
    c = gen.corpus_list()
    for d in rng.sample(c, 14):
        docs.append(d[:4000].rsplit(b'\n', 1)[0] + b'\n' if len(d) > 4000 else d)
    for _ in range(10):
        docs.append(gendoc.random_document(rng).encode('utf-8'))
    return [d.split(b'\0')[0] for d in docs]


def src_frames(stack_text):
    root = os.path.join(build.REPO, 'src') + os.sep
    out = []
    for m in re.finditer(r'#\d+ (\S+) (\S+?):\d+', stack_text):
        fn, path = m.group(1), m.group(2)
        if path.startswith(root):
            out.append(fn)
    return out


def parse_tsan(text):
    """yield (key, block) per report; key names the shared object or the innermost library function pair"""
    for blk in re.split(r'={18,}\n', text):
        if 'WARNING: ThreadSanitizer' not in blk:
            continue
        kind = re.search(r'WARNING: ThreadSanitizer: ([^\(\n]+)', blk).group(1).strip().replace(' ', '-')
        if re.search(r'SUMMARY: ThreadSanitizer: data race \S*tzset\.c:\d+ in tzset_internal', blk):
            # mktime()/localtime_r() update the time-zone state under glibc's own tzset_lock; libc is not instrumented, so TSan does not
            # see that lock (both functions are documented MT-Safe): a report inside tzset_internal is not a race of the library
            yield None, blk
            continue
        loc = re.search(r"Location is global '([^']+)'", blk)
        stacks = re.split(r'\n\s*\n', blk)
        fns = []
        for st in stacks:
            if re.search(r'(Write|Read|Previous write|Previous read|Atomic)', st.split('\n')[0] if st else ''):
                fr = src_frames(st)
                if fr:
                    fns.append(fr[0])
        if loc:
            key = 'tsan:%s:global:%s' % (kind, loc.group(1))
        elif fns:
            key = 'tsan:%s:%s' % (kind, '+'.join(sorted(set(fns[:2]))))
        else:
            allf = src_frames(blk)
            if not allf:
                yield None, blk          # a report entirely outside the library (libc internals)
                continue
            key = 'tsan:%s:%s' % (kind, allf[0])
        yield key, blk


def work(job):
    seed, run, nthreads, iters = job[:4]
    focus = job[4] if len(job) > 4 else None
    r = core.JobResult()
    exe = build.build('tsan-nopool', ('threads',))['threads']
    rng = core.job_rng(seed, ID, run)
    tdir = tempfile.mkdtemp(prefix='mmdv-c17-', dir=D.SCRATCH_ROOT)
    try:
        docs = docs_for(rng)
        if focus is not None:
            # every thread works on the same small family of documents: maximal contention on whatever helper that family exercises
            docs = [docs[focus]] * 2 + [docs[(focus + 1) % NSPECIAL]]
        df = os.path.join(tdir, 'docs.bin')
        with open(df, 'wb') as f:
            f.write(struct.pack('<I', len(docs)))
            for d in docs:
                f.write(struct.pack('<I', len(d)) + d)
        env = dict(os.environ, TSAN_OPTIONS='halt_on_error=0:second_deadlock_stack=1:history_size=4:log_path=%s' % os.path.join(tdir, 'tsan'))
        args = [exe, df, str(seed * 1000 + run), str(nthreads), str(iters)]
        try:
            p = subprocess.run(args, stdout=subprocess.PIPE, stderr=subprocess.PIPE, env=env, cwd=tdir, timeout=1500)
        except subprocess.TimeoutExpired:
            r.inconclusive.append('threads run %d timed out' % run)
            return r
        out = p.stdout.decode(errors='replace')
        m = re.search(r'DONE (\d+) (\d+) (\d+) (\d+)', out)
        case = dict(seed=seed, run=run, nthreads=nthreads, iters=iters, cmd=' '.join(args[2:]))
        if not m:
            key = D.sanitizer_key(p.stderr.decode(errors='replace'), p.returncode)
            r.violate('threads-run-died:' + key, 'concurrent run died (rc=%s)' % p.returncode, case, p.stderr.decode(errors='replace')[:4000])
            return r
        total, mism, overlap, events = map(int, m.groups())
        r.evaluations += total
        r.stats['conversions'] += total
        r.stats['conversions_overlapping_another_thread'] += overlap
        r.stats['runs'] += 1
        r.stats['threads_total'] += nthreads
        if overlap < total // 4:
            r.inconclusive.append('run %d: only %d of %d conversions overlapped' % (run, overlap, total))
        else:
            r.distinct.add((seed, run))
        for mm in re.finditer(r'MISMATCH thread=(\d+) doc=(\d+) combo=(\d+) at=(\d+)', out):
            d, c = int(mm.group(2)), int(mm.group(3))
            feat = 'obfuscated-email' if b'@' in docs[d] else 'content'
            r.violate('output-differs-under-concurrency:combo%d:%s' % (c, feat), 'thread %s: output for document %d, combo %d differs from the serial output at byte %s' % (mm.group(1), d, c, mm.group(4)),
                      case, core.show(docs[d], 300))
        reports = 0
        for lf in glob.glob(os.path.join(tdir, 'tsan*')):
            for key, blk in parse_tsan(open(lf, errors='replace').read()):
                reports += 1
                if key is None:
                    r.stats['tsan_reports_inside_libc (tzset under libc\'s own lock, or no library frame; not judged)'] += 1
                    continue
                r.violate(key, 'ThreadSanitizer: %s' % key, case, blk[:3500])
        r.stats['tsan_report_blocks'] += reports
        if run == 0:
            r.samples.append(dict(threads=nthreads, iterations_per_thread=iters, documents=len(docs), conversions=total, overlapping=overlap, first_document=core.show(docs[0], 80)))
    finally:
        shutil.rmtree(tdir, ignore_errors=True)
    return r


def main():
    chk = core.Check(ID)
    runs = chk.scale(16, 320)
    chk.rule = ('run j = f(VERIF_SEED, j): T in {2,4,8,16} threads x 30-60 conversions each over 30 documents (e-mail autolinks, notes, TOC, metadata, tables, images, citations, '
                'CriticMarkup, corpus, generated) x 20 (entry point, format, extension, language) combos incl. the text-level CriticMarkup accept/reject pass, metadata keys, packages and random-anchor options (race workload only); yields injected at 3 '
                'hook points; TSan reports deduplicated by shared object / innermost library function pair; bytes compared with the serial run for the 14 deterministic combos (serial references are computed after the threads have finished, so lazily initialised state is first used concurrently); '
                'distinct = runs in which >= 25% of conversions overlapped a conversion on another thread')
    chk.assumptions = ['TSan sees only synchronisation it intercepts; reports whose stacks lie entirely outside /repo/src are counted, not judged',
                       'interleavings are those the scheduler and the injected yields produced']
    jobs = []
    for j in range(runs):
        nt = [2, 4, 8, 16][j % 4]
        jobs.append((chk.seed, j, nt, 60 if nt <= 4 else 30))
    for f in range(NSPECIAL):
        jobs.append((chk.seed, 1000 + f, 8, 40 if not chk.thorough else 200, f))
    # each run is itself multi-threaded: 4 at a time
    chk.run_jobs(work, jobs, nproc=4)
    return chk.finish()
