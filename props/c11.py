"""C11 -- metadata is reported, extracted and updated faithfully.

Reference model: the generator's own list of (key as written, value lines), fences, termination and
body.  Expected: has_metadata / end offset, normalised keys in order, whitespace-normalised values
with no character lost or added, update semantics (new value reads back, other values and the body
unchanged), values carried into the complete HTML document.  All three API families, and update
*histories* on one string / DString / engine.
"""
import re
from lib import core, gen, gendoc, drv as D

ID = 'C11'

KEY_SHAPES = ['Title', 'author', 'Base Header Level', 'My Key', 'key.with.dots', 'under_score', 'dash-key', 'MiXeD CaSe', 'k2', '2nd key', 'a b c', 'Date',
              'Copyright', 'Keywords', 'Revision', 'X-Custom', 'Sub Title', 'k\tt', 'Affiliation', 'web site', 'e.mail', 'CSS Info', 'Q', 'Note Well', 'Z9']
VAL_ATOMS = ['&', 'a&b', ': colon', 'x:y', '<tag>', '"q"', "it's", '100%', '#1', '*star*', '_u_', '[b]', '(p)', '{c}', '$5', 'a/b', 'http://x.y/z?a=1&b=2', 'café',
             'à la', 'naïve', '中文', '\U0001F600', 'e = mc^2', 'a ~ b', '`tick`', 'semi;colon', 'plus+minus-', 'back\\slash mid', '|pipe|', 'x  y', '@at', 'eq=ual']
BODIES = ['Plain body text w900.\n', '# Heading #\n\nPara w901.\n', '* item w902\n* item\n', '> quote w903\n', '```\ncode w904\n```\n', '    indented w905\n',
          '| a | b |\n|---|---|\n| c | w906 |\n', 'Term\n: def w907\n', '1. one w908\n', '<div>html w909</div>\n', 'key: looks like meta w910\n', '---\n\nafter rule w911\n',
          '[ref]: http://x.y\n\npara [ref] w912\n', '\\[ math \\] w913\n', 'w914 no newline at end']


def label(s):
    """keys: lower-cased, restricted to 0-9 a-z . _ - : (what the documentation calls the normalised form)"""
    return ''.join(c.lower() for c in s if c.isascii() and (c.isalnum() or c in '._-:'))


def norm_value(lines):
    t = ' '.join(l[1] if isinstance(l, tuple) else l for l in lines)
    return re.sub(r'[ \t\r\n]+', ' ', t).strip(' ')


class Case:
    pass


def gen_case(rng):
    c = Case()
    n = rng.randint(1, 8)
    keys, seen = [], set()
    while len(keys) < n:
        k = rng.choice(KEY_SHAPES)
        if rng.random() < 0.3:
            k = k + str(rng.randint(0, 99))
        if label(k) in seen or not label(k):
            continue
        seen.add(label(k))
        keys.append(k)
    c.dup = False
    if len(keys) >= 2 and rng.random() < 0.08:
        # the same key written twice: the listing shows both lines, a lookup returns the first, an update changes the one a lookup returns
        keys.insert(rng.randint(1, len(keys)), rng.choice(keys[:max(1, len(keys) - 1)]))
        c.dup = True
    wn = [100]

    def w():
        wn[0] += 1
        return 'w%d' % wn[0]
    entries = []
    for k in keys:
        nl = rng.choice([1, 1, 1, 2, 3])
        lines = []
        for li in range(nl):
            atoms = [w()] + [rng.choice(VAL_ATOMS) if rng.random() < 0.6 else w() for _ in range(rng.randint(0, 4))] + [w()]
            t = ' '.join(atoms)
            if li > 0:
                ind = rng.choice(['    ', '\t', '  ', ' ', '   ', ''])
                if ind == '':
                    t = t.replace(':', ';')         # an unindented continuation line must not look like a new key
                elif rng.random() < 0.3:
                    t = 'Attn: ' + t                # ... an indented one may: it is still part of the value
                t = (ind, t)
            lines.append(t)
        entries.append((k, lines))
    c.entries = entries
    eol = rng.choice(['\n', '\n', '\n', '\r\n'])
    yaml = rng.random() < 0.15
    out = []
    if yaml:
        out.append('---')
    for k, lines in entries:
        sep = rng.choice([': ', ': ', ':\t', ':  ', ': \t ', ':'])
        first = k + sep + lines[0] + rng.choice(['', '', ' ', '  ', '\t'])
        out.append(first)
        for ind, l in lines[1:]:
            out.append(ind + l + rng.choice(['', ' ']))
    closer = yaml
    if yaml:
        out.append('---')
    elif rng.random() < 0.06:
        # a closing line of dashes without an opening one ends the block just the same (and belongs to it)
        out.append(rng.choice(['---', '-----', '----------']))
        closer = True
    block = eol.join(out)
    term = rng.choice(['blank', 'blank', 'blank', 'eof-nl', 'eof'])
    if closer and term == 'eof':
        term = 'eof-nl'
    if closer and term == 'blank' and rng.random() < 0.4:
        term = 'fence'          # the closing fence ends the block: the body may follow it directly
    ender = None
    if not closer and rng.random() < 0.06:
        # a line that cannot be part of a metadata block ends it without a blank line; what follows is body, even when it is spelled 'key: text'
        term = 'ender'
        ender = rng.choice(['***', '=====', '* * *', '```', '<!--'])
    c.term = term
    c.yaml = yaml
    c.eol = eol
    if term == 'ender':
        c.body = (ender + '\nFoo: looks like meta w915\nmore w916\n' + ('```\n' if ender == '```' else ('-->\n' if ender == '<!--' else ''))).replace('\n', eol)
        c.block_bytes = (block + eol).encode('utf-8')
        c.src = c.block_bytes + c.body.encode('utf-8')
        c.sep = b''
    elif term == 'blank':
        c.body = rng.choice(BODIES).replace('\n', eol)
        c.block_bytes = (block + eol).encode('utf-8')
        c.src = c.block_bytes + eol.encode() + c.body.encode('utf-8')
        c.sep = eol.encode()
    elif term == 'fence':
        c.body = rng.choice([b for b in BODIES if not b.startswith(('---', '    '))]).replace('\n', eol)        # a body that starts with 'key: text' right after the fence is body
        c.block_bytes = (block + eol).encode('utf-8')
        c.src = c.block_bytes + c.body.encode('utf-8')
        c.sep = b''
    elif term == 'eof-nl':
        c.body = ''
        c.block_bytes = (block + eol).encode('utf-8')
        c.src = c.block_bytes
        c.sep = b''
    else:
        c.body = ''
        c.block_bytes = block.encode('utf-8')
        c.src = c.block_bytes
        c.sep = b''
    c.keys = [label(k) for k, _ in entries]
    c.values = {}
    for k, ls in entries:
        c.values.setdefault(label(k), norm_value(ls))
    return c


FAM = ['string', 'd_string', 'engine']


def query_all(r, s, src, fam, case_json, what):
    """returns (has, end, keys, {key: value}) through family `fam` (one fresh engine per call)"""
    out = {}
    rep = s.call('asan', 'META', 0, 0, 0, fam | (0 << 4), [src, b'', b''], crash_is_violation=False)
    r.evaluations += 1
    if rep is None or rep.status:
        return None
    has, end = rep.out.split()
    rep = s.call('asan', 'META', 0, 0, 0, fam | (1 << 4), [src, b'', b''], crash_is_violation=False)
    r.evaluations += 1
    if rep is None or rep.status:
        return None
    keys = rep.out.decode('utf-8', 'replace').split('\n')
    keys = keys[:-1] if keys and keys[-1] == '' else keys
    return int(has), int(end), keys


def value_of(r, s, src, fam, key):
    rep = s.call('asan', 'META', 0, 0, 0, fam | (2 << 4), [src, key.encode(), b''], crash_is_violation=False)
    r.evaluations += 1
    if rep is None or rep.status:
        return 'CRASH'
    return None if rep.out == b'\x01NULL' else rep.out.decode('utf-8', 'replace')


def check_static(r, s, c, fam, tag):
    case = dict(requests=[D.req_to_json('asan', 'META', 0, 0, 0, fam | (1 << 4), [c.src, b'', b''])], model=dict(keys=c.keys, values=c.values, term=c.term, yaml=c.yaml))
    q = query_all(r, s, c.src, fam, case, tag)
    if q is None:
        r.stats['crashed (C01 territory)'] += 1
        return False
    has, end, keys = q
    site = '%s%s' % ('yaml:' if c.yaml else '', c.term)
    ok = True
    if not has:
        r.violate('has-metadata-false:%s' % site, '%s_has_metadata answers false for a document that starts with a metadata block (%s)' % (FAM[fam], site), case, core.show(c.src, 400))
        return False
    if end != len(c.block_bytes):
        r.violate('end-offset:%s' % site, '%s_has_metadata end=%d, block is %d bytes (%s)' % (FAM[fam], end, len(c.block_bytes), site), case, core.show(c.src, 400))
        ok = False
    if keys != c.keys:
        r.violate('keys:%s' % site, '%s_metadata_keys = %r, written %r' % (FAM[fam], keys, c.keys), case, core.show(c.src, 400))
        ok = False
    for i, k in enumerate(c.keys):
        v = value_of(r, s, c.src, fam, k)
        r.stats['values_compared'] += 1
        if v == 'CRASH':
            continue
        if v != c.values[k]:
            last = (i == len(c.keys) - 1)
            r.violate('value:%s:%s' % ('last-key' if last else 'inner-key', site if last else 'any'),
                      '%s_metavalue_for_key(%r) = %r, written %r' % (FAM[fam], k, v, c.values[k]), case, core.show(c.src, 400))
            ok = False
    # a differently-spelled query key finds the same value
    k0 = c.entries[0][0]
    v = value_of(r, s, c.src, fam, k0.upper())
    if v != 'CRASH' and v != c.values[c.keys[0]]:
        r.violate('value:key-normalisation', 'query with key %r returns %r, expected %r' % (k0.upper(), v, c.values[c.keys[0]]), case, core.show(c.src, 400))
    return ok


def check_updates(r, s, c, rng, fam):
    """history of updates on one string / DString / engine"""
    model_keys = list(c.keys)
    model_vals = dict(c.values)
    body = c.body.encode('utf-8')
    src = c.src
    hist = []
    slot = 0
    if fam == 2:
        rq = D.req_to_json('asan', 'ENGINE', 0, 0, 0, slot | (0 << 4), [src])
        hist.append(rq)
        if s.call('asan', *D.req_from_json(rq), crash_is_violation=False) is None:
            return
    nupd = rng.randint(1, 6)
    for u in range(nupd):
        if rng.random() < 0.6:
            k = rng.choice(model_keys)
            kq = k
        else:
            kq = 'New Key %d' % rng.randint(0, 50)
            k = label(kq)
        v = 'u%d ' % (u + 500) + ' '.join(rng.choice(VAL_ATOMS) if rng.random() < 0.5 else 'u%d' % rng.randint(600, 999) for _ in range(rng.randint(0, 3))) + ' z%d' % u
        v = v.replace('\\', '/')
        if fam == 2:
            rq = D.req_to_json('asan', 'ENGINE', 0, 0, 0, slot | (7 << 4), [kq.encode(), v.encode()])
        else:
            rq = D.req_to_json('asan', 'META', 0, 0, 0, fam | (3 << 4), [src, kq.encode(), v.encode()])
        hist.append(rq)
        rep = s.call('asan', *D.req_from_json(rq), history=hist[:-1] if fam == 2 else None, crash_is_violation=False)
        r.evaluations += 1
        if rep is None or rep.status:
            return
        new_src = rep.out
        if k not in model_vals:
            model_keys.append(k)
        model_vals[k] = norm_value([v])
        case = dict(requests=list(hist), model=dict(keys=model_keys, values=model_vals))
        site = 'update:%s' % FAM[fam]
        # read back: through the same engine (fam 2) and through a fresh one
        for how in (['engine', 'fresh'] if fam == 2 else ['fresh']):
            for kk in model_keys:
                if how == 'engine':
                    rq2 = D.req_to_json('asan', 'ENGINE', 0, 0, 0, slot | (6 << 4), [kk.encode()])
                    rep2 = s.call('asan', *D.req_from_json(rq2), history=hist, crash_is_violation=False)
                    got = None if rep2 is None else (None if rep2.out == b'\x01NULL' else rep2.out.decode('utf-8', 'replace'))
                else:
                    got = value_of(r, s, new_src, 0, kk)
                r.stats['values_compared_after_update'] += 1
                if got == 'CRASH':
                    continue
                if got != model_vals[kk]:
                    which = 'updated-key' if kk == k else 'other-key'
                    r.violate('%s:%s:%s' % (site, which, 'same-engine' if how == 'engine' else 'reread'),
                              'after update(%r, %r) [%s]: value(%r) = %r, expected %r' % (kq, v, how, kk, got, model_vals[kk]), case, core.show(new_src, 400))
                    return
        # body unchanged
        q = query_all(r, s, new_src, 0, case, 'after-update')
        if q is None:
            return
        has, end, keys = q
        if not has or keys != model_keys:
            r.violate('%s:keys' % site, 'after update(%r): keys %r, expected %r' % (kq, keys, model_keys), case, core.show(new_src, 400))
            return
        got_body = new_src[end:]
        exp = (c.sep + body) if c.term in ('blank', 'fence', 'ender') else b''
        if got_body.lstrip(b'\r\n') != exp.lstrip(b'\r\n'):
            r.violate('%s:body-changed' % site, 'after update(%r): the text after the metadata block changed' % kq, case,
                      'expected %s\ngot      %s' % (core.show(exp, 200), core.show(got_body, 200)))
            return
        src = new_src
    if fam == 2:
        rq = D.req_to_json('asan', 'ENGINE', 0, 0, 0, slot | (9 << 4), [b''])
        s.call('asan', *D.req_from_json(rq), crash_is_violation=False)
    r.stats['update_histories'] += 1


def check_complete_html(r, s, c):
    rep = s.call('asan', 'CONVERT', 0, D.EXT_CLI | D.EXT['COMPLETE'], 0, 0 | (1 << 4), [c.src], crash_is_violation=False)
    r.evaluations += 1
    if rep is None or rep.status:
        return
    head = rep.out.split(b'</head>')[0].decode('utf-8', 'replace')
    for k in c.keys:
        if k in ('css', 'htmlheader', 'xhtmlheader', 'baseheaderlevel', 'htmlheaderlevel', 'language', 'quoteslanguage', 'latexmode', 'mmdheader', 'mmdfooter', 'transcludebase'):
            continue
        words = re.findall(r'w\d+', c.values[k])
        pos = 0
        for wd in words:
            j = head.find(wd, pos)
            if j < 0:
                r.violate('complete-html:value-missing', 'value of %r not carried into <head> of the complete document (word %s)' % (k, wd),
                          dict(requests=[D.req_to_json('asan', 'CONVERT', 0, D.EXT_CLI | D.EXT['COMPLETE'], 0, 0 | (1 << 4), [c.src])]), core.show(head, 600))
                return
            pos = j
        # the value arrives exactly: the content attribute, un-escaped, is the value metavalue_for_key reports
        if k != 'title':
            m = re.search(r'^\s*<meta name="%s" content="(.*)"\s*/>\s*$' % re.escape(k), head, re.M)
            if m:
                if re.search(r'["<]|&(?!amp;|lt;|gt;|quot;|#\d+;|#x[0-9a-fA-F]+;)', m.group(1)):
                    r.violate('complete-html:value-unescaped', 'the <meta> element for %r carries the value unescaped: %r' % (k, m.group(1)[:80]),
                              dict(requests=[D.req_to_json('asan', 'CONVERT', 0, D.EXT_CLI | D.EXT['COMPLETE'], 0, 0 | (1 << 4), [c.src])]), core.show(head, 600))
                    return
                got = m.group(1).replace('&lt;', '<').replace('&gt;', '>').replace('&quot;', '"').replace('&#39;', "'").replace('&amp;', '&')
                r.stats['complete_html_meta_values_compared'] += 1
                if got != c.values[k]:
                    r.violate('complete-html:value-differs', 'the <meta> element for %r carries %r, the value is %r' % (k, got[:80], c.values[k][:80]),
                              dict(requests=[D.req_to_json('asan', 'CONVERT', 0, D.EXT_CLI | D.EXT['COMPLETE'], 0, 0 | (1 << 4), [c.src])]), core.show(head, 600))
                    return
    r.stats['complete_documents_checked'] += 1


def work(job):
    seed, lo, hi = job
    r = core.JobResult()
    with core.Session(r) as s:
        for i in range(lo, hi):
            rng = core.job_rng(seed, ID, i)
            c = gen_case(rng)
            ok = True
            for fam in range(3):
                ok = check_static(r, s, c, fam, 'static') and ok
            if ok:
                check_updates(r, s, c, rng, rng.randrange(3))
                if rng.random() < 0.3:
                    check_complete_html(r, s, c)
            r.distinct.add(core.h64(c.src))
            r.sets['terminations'].add(('yaml:' if c.yaml else '') + c.term)
            r.stats['keys_generated'] += len(c.keys)
            if i - lo < 1:
                r.samples.append(dict(source=core.show(c.src, 300), expected_keys=c.keys, expected_values=c.values, termination=c.term))
    return r


NOT_METADATA = [b'Title:\nAuthor: x\n\nbody\n', b'Title: \nAuthor: x\n\nbody\n', b'Key:\n', b'Key:\n\nbody w1\n', b'Title:\n    continued\n\nbody\n', b'http://example.com/: x\n\nbody\n',
                b'no colon here\nTitle: x\n\nbody\n', b'\nTitle: x\n\nbody\n',
                b'---\nplain text\nNote: this is body\n\nBody\n', b'---\n\nTitle: x\n\nbody\n', b'---\n***\nFoo: bar\n']          # a first line of dashes opens metadata only when a key follows


def work_negative(job):
    """documents whose first line looks like a key but that do not start with a metadata block (an empty first key is not metadata, a URL is not a key,
    metadata cannot start on the second line): the answer is 'no metadata', end offset 0, no keys, no value -- through the three families"""
    seed, = job
    r = core.JobResult()
    with core.Session(r) as s:
        for src in NOT_METADATA:
            for fam in range(3):
                case = dict(requests=[D.req_to_json('asan', 'META', 0, 0, 0, fam | (0 << 4), [src, b'', b''])])
                q = query_all(r, s, src, fam, case, 'negative')
                if q is None:
                    continue
                has, end, keys = q
                r.stats['documents_without_metadata_queried'] += 1
                r.distinct.add(('neg', src, fam))
                if has or end != 0 or keys:
                    r.violate('no-metadata:%s' % ('answer' if has or keys else 'end-offset'), '%s family on a document without a metadata block: has=%s end=%s keys=%r (expected false, 0, none)' % (FAM[fam], has, end, keys),
                              case, core.show(src, 200))
    return r


def main():
    chk = core.Check(ID)
    n = chk.scale(2500, 100000)
    chk.rule = ('case i = f(VERIF_SEED, i): 1-8 unique keys (spaces, mixed case, digits, . _ -), values of 1-3 lines (continuations indented or not) over printable ASCII '
                'and multi-byte atoms incl. & : < " trailing blanks, optional YAML fences, terminated by blank line+body / EOF with newline / EOF without newline, LF or CRLF; '
                'queried through the 3 API families; followed by a history of 1-6 updates (existing and new keys) through one family with read-back on the same '
                'engine and on a fresh one; complete HTML head checked for the values; distinct = distinct sources; all cases carry >= 1 key')
    chk.rule = chk.rule + ' ; plus: a key written twice, closing dashes without an opening fence, blocks ended by a rule / ===== / fence / comment followed by key-like body lines, and texts that must not be read as metadata at all'
    chk.assumptions = ['value normalisation = whitespace runs (incl. line breaks) collapsed to one space, trimmed; no backslash before a line break in generated values']
    chunk = max(10, n // 64)
    chk.run_jobs(work, [(chk.seed, lo, min(n, lo + chunk)) for lo in range(0, n, chunk)])
    chk.run_jobs(work_negative, [(chk.seed,)])
    return chk.finish()
