"""C05 -- output is a function of (source, options) only: no hidden history.

Oracle: every output produced inside a history (many conversions in one process, optionally on one
reused engine, interleaved with metadata queries/updates and resets) is compared byte for byte with
the same conversion done as the FIRST thing in a fresh process.  The caller's source is snapshotted
around every call by the worker.
"""
import re
from lib import core, gen, gendoc, drv as D

ID = 'C05'
VARIANTS = ['asan', 'asan-nopool']
FORMATS = [0, 2, 3, 4, 5, 9, 11, 12]           # textual results (packages carry uuids/dates: C06/C09 normalise those)
NO = D.EXT['RANDOM_FOOT'] | D.EXT['RANDOM_LABELS'] | D.EXT['PARSE_OPML'] | D.EXT['PARSE_ITMZ']

SPECIAL = [
    b'mail <me@example.org> and <mailto:you@example.com>\n',
    b'Contact: <a.b@c.de>\n\n# Head #\n\n<x@y.z> again\n',
    b'x[^a] y[^b] z[^a]\n\n[^a]: first\n\n[^b]: second *em*\n',
    b'[#c1] and [#c2;] and [Not cited][#c3]\n\n[#c1]: Doe. *Book*.\n\n[#c2]: Roe. *Paper*.\n\n[#c3]: Poe.\n',
    b'The [?term] and [>HTML] again [?term] [>HTML]\n\n[?term]: A term\n\n[>HTML]: HyperText\n',
    b'# One #\n\n## Two ##\n\n# One #\n\n[One][] [Two][]\n\n{{TOC}}\n',
    b'| a | b |\n|:--|--:|\n| c | d |\n[Cap][tab]\n\nsee [tab][]\n',
    b'css: style.css\ntitle: T\n\n![alt](pic.png "t")\n\n![ref][]\n\n[ref]: other.png width=10px\n',
    b'Title: Meta *doc*\nAuthor: Me\nBase Header Level: 2\nlanguage: de\n\n# H #\n\n"quoted" -- text... [%title]\n',
    b'{++add++} {--del--} {~~a~>b~~} {==hi==}{>>c<<}\n',
    b'Term\n: Def one\n: Def two\n\n1. a\n2. b\n\n    code\n\n> quote\n',
    b'`code` $x^2$ \\\\(a\\\\) x^2^ y~2~ "q" \'s\' <b>raw</b> &amp; &copy;\n',
    b'[link](http://x.y/ "T") [r][] <http://auto.link/>\n\n[r]: http://r.s/ "RT" class=c\n',
]


def pool(rng):
    docs = list(SPECIAL)
    c = gen.corpus_list()
    for d in rng.sample(c, 18):
        docs.append(d if len(d) < 5000 else d[:5000].rsplit(b'\n', 1)[0] + b'\n')
    for _ in range(12):
        docs.append(gendoc.random_document(rng).encode('utf-8'))
    big = b''.join(rng.sample(c, 6))            # several pool slabs worth of tokens
    docs.append(big[:60000])
    for _ in range(8):
        docs.append(gen.state_heavy(rng))       # heavy users of hidden state (random numbers, counters, label tables)
    docs.append(gen.edge_source(rng))
    # documents that run into the parser's nesting limits: the guards' own bookkeeping is state too (a counter that is not wound back would
    # change what the next conversion on the same engine, or in the same process, may nest)
    docs.append(b'>' * rng.choice([1001, 1003, 1010]) + b' deep quote w1\n\nafter w2\n')
    docs.append(b'> ' * 995 + b'quote just under the limit w3\n\nafter w4\n')
    docs.append((b'[' * rng.choice([1001, 1200]) + b'x' + b']' * 1200 + b'\n\nafter w5\n'))
    return [d.split(b'\0')[0] for d in docs]


def rand_opts(rng):
    r = rng.random()
    if r < 0.35:
        ext = D.EXT_CLI
    elif r < 0.5:
        ext = D.EXT_CLI | D.EXT['OBFUSCATE']
    elif r < 0.6:
        ext = D.EXT_CLI_COMPAT
    elif r < 0.7:
        ext = D.EXT_CLI | rng.choice([D.EXT['COMPLETE'], D.EXT['SNIPPET']])
    else:
        ext = rng.getrandbits(17)
    return rng.choice(FORMATS), ext & ~NO, rng.choice(gen.LANGS)


class Fresh:
    """fresh(source, opts): the conversion done first in a process of its own."""
    def __init__(self, r):
        self.cache = {}
        self.r = r

    def get(self, variant, src, fmt, ext, lang):
        k = (variant, core.h64(src), fmt, ext, lang)
        if k not in self.cache:
            d = D.Driver(variant)
            try:
                rep = d.call('CONVERT', fmt, ext, lang, 0 | (1 << 4), [src])
                self.cache[k] = rep.out if rep.status == 0 else None
            except (D.Crash, D.Hang):
                self.cache[k] = None
            finally:
                d.close()
            self.r.stats['fresh_processes'] += 1
        return self.cache[k]


def compare(r, fresh, variant, hist, what, src, fmt, ext, lang, out, site):
    ref = fresh.get(variant, src, fmt, ext, lang)
    r.stats['outputs_compared'] += 1
    if ref is None or out is None:
        r.stats['skipped (crash/exit: other properties)'] += 1
        return
    if ref != out:
        i = 0
        while i < min(len(ref), len(out)) and ref[i] == out[i]:
            i += 1
        feat = classify(src, ref, out, i)
        r.violate('history-dependent:%s:%s' % (D.FMT_NAME[fmt], feat),
                  '%s: output of step %d differs from the fresh-process output at byte %d (%s)' % (what, len(hist), i, site),
                  dict(requests=list(hist), fresh=D.req_to_json(variant, 'CONVERT', fmt, ext, lang, 0 | (1 << 4), [src])),
                  'fresh : %s\nhere  : %s' % (core.show(ref[max(0, i - 40):i + 80]), core.show(out[max(0, i - 40):i + 80])))


def classify(src, ref, out, i):
    """name what differs (stable key part): the construct around the first differing byte"""
    ctx = ref[max(0, i - 60):i + 20]
    if b'mailto:' in ctx or b'&#' in ctx:
        return 'obfuscated-email'
    if b'fn:' in ctx or b'footnote' in ctx:
        return 'footnote'
    if b'id="' in ctx or b'\\label' in ctx:
        return 'label'
    if len(ref) != len(out):
        return 'length'
    return 'content'


def work(job):
    seed, lo, hi, kmax = job
    r = core.JobResult()
    fresh = Fresh(r)
    with core.Session(r) as s:
        for i in range(lo, hi):
            rng = core.job_rng(seed, ID, i)
            docs = pool(core.job_rng(seed, ID, 'pool', i % 7))
            variant = rng.choice(VARIANTS)
            # a history starts in a fresh worker
            s.driver(variant).restart()
            hist = []
            k = rng.randint(1, kmax)
            slots = {}
            reused = False
            seen_docs = set()
            for step in range(k):
                di = rng.randrange(len(docs)) if rng.random() < 0.7 or not seen_docs else rng.choice(sorted(seen_docs))
                if di in seen_docs:
                    reused = True
                seen_docs.add(di)
                src = docs[di]
                fmt, ext, lang = rand_opts(rng)
                mode = rng.random()
                if mode < 0.06:
                    # packaged formats: their bytes carry uuids and dates (C06/C09 compare those); here only "the caller's source is left unchanged"
                    pf = rng.choice([1, 6, 7, 8, 10])
                    fam = rng.choice([1, 2])
                    rq = D.req_to_json(variant, 'CONVERT', pf, ext, lang, fam | (1 << 4), [src])
                    hist.append(rq)
                    rep = s.call(variant, 'CONVERT', pf, ext, lang, fam | (1 << 4), [src], history=hist[:-1], crash_is_violation=False)
                    r.evaluations += 1
                    r.stats['package_conversions_source_snapshotted'] += 1
                    if rep is None:
                        break
                    if 'srcmod:' in rep.diag:
                        r.violate('source-modified:' + rep.diag.split('srcmod:')[1].split(';')[0], 'the caller\'s source changed during a %s conversion' % D.FMT_NAME[pf],
                                  dict(requests=list(hist)), core.show(src, 300))
                elif mode < 0.5 or len(slots) >= 3:
                    fam = rng.randrange(3)
                    rq = D.req_to_json(variant, 'CONVERT', fmt, ext, lang, fam | (1 << 4), [src])
                    hist.append(rq)
                    rep = s.call(variant, 'CONVERT', fmt, ext, lang, fam | (1 << 4), [src], history=hist[:-1], crash_is_violation=False)
                    r.evaluations += 1
                    if rep is None:
                        break
                    if 'srcmod:' in rep.diag:
                        r.violate('source-modified:' + rep.diag.split('srcmod:')[1].split(';')[0], 'the caller\'s source changed during a %s conversion' % D.FMT_NAME[fmt],
                                  dict(requests=list(hist)), core.show(src, 300))
                    compare(r, fresh, variant, hist, 'family %d' % fam, src, fmt, ext, lang, rep.out if rep.status == 0 else None, 'plain call')
                else:
                    # reused engine: create once, convert several times in different formats, with queries/updates/resets in between
                    sl = len(slots)
                    own = rng.randrange(2)
                    rq = D.req_to_json(variant, 'ENGINE', 0, ext, lang, sl | (own << 4), [src])
                    hist.append(rq)
                    if s.call(variant, *D.req_from_json(rq), history=hist[:-1], crash_is_violation=False) is None:
                        break
                    slots[sl] = (src, ext, lang)
                    cur = src
                    for _ in range(rng.randint(1, 6)):
                        a = rng.random()
                        if a < 0.6:
                            f2 = rng.choice(FORMATS)
                            rq = D.req_to_json(variant, 'ENGINE', f2, 0, 0, sl | (3 << 4), [b''])
                            hist.append(rq)
                            rep = s.call(variant, *D.req_from_json(rq), history=hist[:-1], crash_is_violation=False)
                            r.evaluations += 1
                            if rep is None:
                                break
                            compare(r, fresh, variant, hist, 'reused engine', cur, f2, ext, lang, rep.out if rep.status == 0 else None, 'slot %d' % sl)
                            reused = True
                        elif a < 0.68 and own:
                            # the caller edits the DString it shares with the engine, then converts again: nothing of the previous text may linger
                            cur = docs[rng.randrange(len(docs))]
                            rq = D.req_to_json(variant, 'ENGINE', 0, 0, 0, sl | (15 << 4), [cur])
                            hist.append(rq)
                            if s.call(variant, *D.req_from_json(rq), history=hist[:-1], crash_is_violation=False) is None:
                                break
                            r.stats['engine_source_replaced'] += 1
                            # the engine learns about the new text by converting it (queries/updates before that would read stale offsets:
                            # the API does not promise anything for that order, so it is not generated)
                            f2 = rng.choice(FORMATS)
                            rq = D.req_to_json(variant, 'ENGINE', f2, 0, 0, sl | (3 << 4), [b''])
                            hist.append(rq)
                            rep = s.call(variant, *D.req_from_json(rq), history=hist[:-1], crash_is_violation=False)
                            r.evaluations += 1
                            if rep is None:
                                break
                            compare(r, fresh, variant, hist, 'reused engine after the caller replaced the text', cur, f2, ext, lang, rep.out if rep.status == 0 else None, 'slot %d' % sl)
                            reused = True
                        elif a < 0.72:
                            # the caller switches the language on the engine: the next conversion must look like a fresh one in that language
                            lang = rng.choice(gen.LANGS)
                            rq = D.req_to_json(variant, 'ENGINE', 0, 0, lang, sl | (10 << 4), [b''])
                            hist.append(rq)
                            if s.call(variant, *D.req_from_json(rq), history=hist[:-1], crash_is_violation=False) is None:
                                break
                            r.stats['engine_language_switched'] += 1
                        elif a < 0.735:
                            # the caller parses a part of the text only (mmd_engine_parse_substring): what that call sets up for itself must not outlive it
                            n = len(cur)
                            st = rng.choice([0, 1, n // 3, n // 2]) if n else 0
                            rq = D.req_to_json(variant, 'ENGINE', 0, 0, 0, sl | (12 << 4), [str(st).encode(), str(max(1, rng.randrange(max(1, n - st)) if n > st else 1)).encode()])
                            hist.append(rq)
                            if s.call(variant, *D.req_from_json(rq), history=hist[:-1], crash_is_violation=False) is None:
                                break
                            r.stats['engine_substring_parses'] += 1
                        elif a < 0.75:
                            rq = D.req_to_json(variant, 'ENGINE', 0, 0, 0, sl | (rng.choice([4, 5, 8]) << 4), [b''])
                            hist.append(rq)
                            if s.call(variant, *D.req_from_json(rq), history=hist[:-1], crash_is_violation=False) is None:
                                break
                        elif a < 0.85:
                            rq = D.req_to_json(variant, 'ENGINE', 0, 0, 0, sl | (6 << 4), [rng.choice([b'title', b'author', b'nokey'])])
                            hist.append(rq)
                            if s.call(variant, *D.req_from_json(rq), history=hist[:-1], crash_is_violation=False) is None:
                                break
                        else:
                            rq = D.req_to_json(variant, 'ENGINE', 0, 0, 0, sl | (7 << 4), [rng.choice([b'title', b'newkey']), rng.choice([b'New T', b'v2'])])
                            hist.append(rq)
                            rep = s.call(variant, *D.req_from_json(rq), history=hist[:-1], crash_is_violation=False)
                            if rep is None:
                                break
                            cur = rep.out           # the engine's source after the update is the new source
                    else:
                        # (no break: the worker is still alive and holds the slot)
                        rq = D.req_to_json(variant, 'ENGINE', 0, 0, 0, sl | (9 << 4), [b''])
                        hist.append(rq)
                        s.call(variant, *D.req_from_json(rq), history=hist[:-1], crash_is_violation=False)
                        continue
                    r.stats['history cut short by a crash/exit inside the engine steps (C01/C02 territory)'] += 1
                    break
            if reused or k > 1:
                r.distinct.add(core.h64(i, seed))
            r.stats['histories'] += 1
            r.stats['history_steps'] += len(hist)
            if i - lo < 1:
                r.samples.append(dict(history=[dict(op=q['op'], fmt=D.FMT_NAME.get(q['fmt']), ext=hex(q['ext']), flags=q['flags']) for q in hist[:10]], variant=variant))
    return r


def work_import(job):
    """the text-extraction entry points (convert_opml_to_text / convert_itmz_to_text on a DString or an engine) are documented to leave the
    caller's source alone: the source bytes (an ITMZ archive is binary: it holds NUL bytes) are compared before and after, and extracting again
    -- from the same object, and in a later request of the same process -- gives the same text"""
    seed, lo, hi = job
    r = core.JobResult()
    with core.Session(r) as s:
        for i in range(lo, hi):
            rng = core.job_rng(seed, ID, 'import', i)
            docs = pool(core.job_rng(seed, ID, 'pool', i % 7))
            src = docs[rng.randrange(len(docs))]
            kind = i % 2            # 0 OPML (text), 1 ITMZ (zip)
            made = s.call('asan', 'CONVERT', 10 if kind else 9, D.EXT_CLI, 0, 1 | (1 << 4), [src], crash_is_violation=False)
            r.evaluations += 1
            if made is None or made.status or not made.out:
                continue
            blob = made.out
            if kind and b'\0' not in blob:
                continue
            hist, outs = [], []
            for flags in ((1 | (kind << 4)), (2 | (kind << 4) | 0x100 | 0x200), (1 | (kind << 4)), (2 | (kind << 4) | 0x100 | (0x200 if kind else 0))):
                rq = D.req_to_json('asan', 'IMPORT', 0, D.EXT_CLI, 0, flags, [blob])
                hist.append(rq)
                rep = s.call('asan', *D.req_from_json(rq), history=hist[:-1], crash_is_violation=False)
                r.evaluations += 1
                if rep is None:
                    break
                r.stats['imports_source_snapshotted'] += 1
                what = ('ITMZ' if kind else 'OPML') + (' DString' if flags & 15 == 1 else ' engine')
                if 'srcmod:' in rep.diag:
                    r.violate('source-modified:' + rep.diag.split('srcmod:')[1].split(';')[0] + (':itmz' if kind else ':opml'), 'the caller\'s source changed during a convert_%s_to_text call (%s)' % ('itmz' if kind else 'opml', what),
                              dict(requests=list(hist)), 'archive made from: ' + core.show(src, 300))
                if 'import-twice-differs' in rep.diag:
                    r.violate('import-twice-differs' + (':itmz' if kind else ':opml'), 'extracting the text twice from one engine gives two different results (%s): %s' % (what, rep.diag), dict(requests=list(hist)), core.show(src, 300))
                if rep.status == 0:
                    outs.append(rep.out)
            if len(set(outs)) > 1:
                r.violate('import-varies' + (':itmz' if kind else ':opml'), 'the same %s source gives different texts on successive extractions in one process' % ('ITMZ' if kind else 'OPML'), dict(requests=list(hist)), core.show(src, 300))
            if len(outs) >= 2:
                r.distinct.add(core.h64('import', kind, blob[:64], src))
    return r


def work_outline_engine(job):
    """an engine created over an OPML source with EXT_PARSE_OPML, converted several times: the first conversion replaces the source by the imported
    text (documented); every conversion, first or later, must give what a fresh process gives for that OPML source in that format"""
    seed, lo, hi = job
    r = core.JobResult()
    fresh = Fresh(r)
    with core.Session(r) as s:
        for i in range(lo, hi):
            rng = core.job_rng(seed, ID, 'outline-engine', i)
            docs = pool(core.job_rng(seed, ID, 'pool', i % 7))
            src = docs[rng.randrange(len(docs))]
            if len(src) > 20000:
                continue
            made = s.call('asan', 'CONVERT', 9, D.EXT_CLI, 0, 1 | (1 << 4), [src], crash_is_violation=False)
            r.evaluations += 1
            if made is None or made.status or not made.out or b'\0' in made.out:
                continue
            opml = made.out
            ext = (D.EXT_CLI | D.EXT['PARSE_OPML']) & ~D.EXT['TRANSCLUDE']
            s.driver('asan').restart()
            hist = [D.req_to_json('asan', 'ENGINE', 0, ext, 0, 0 | (0 << 4), [opml])]
            if s.call('asan', *D.req_from_json(hist[0]), crash_is_violation=False) is None:
                continue
            alive = True
            for step in range(rng.randint(2, 5)):
                f2 = rng.choice([0, 2, 5, 11, 0, 11])
                rq = D.req_to_json('asan', 'ENGINE', f2, 0, 0, 0 | (3 << 4), [b''])
                hist.append(rq)
                rep = s.call('asan', *D.req_from_json(rq), history=hist[:-1], crash_is_violation=False)
                r.evaluations += 1
                if rep is None:
                    alive = False
                    break
                r.stats['outline_engine_conversions'] += 1
                compare(r, fresh, 'asan', hist, 'engine over an OPML source, conversion %d' % (step + 1), opml, f2, ext, 0, rep.out if rep.status == 0 else None, 'outline engine')
            if alive:
                s.call('asan', 'ENGINE', 0, 0, 0, 0 | (9 << 4), [b''], crash_is_violation=False)
                r.distinct.add(core.h64('oe', i, seed))
    return r


EXPORT_FMTS = [0, 2, 3, 4, 5, 9, 11]


def export_cause(src, ref, out, i):
    """what differs between an export and the same export done first (stable key part)"""
    ctx = ref[max(0, i - 80):i + 30] + b' ' + out[max(0, i - 80):i + 30]
    near = ref[max(0, i - 24):i + 8] + b' ' + out[max(0, i - 24):i + 8]
    if re.search(rb'<h\d|</h\d>|\\(part|chapter|section|subsection|subsubsection|paragraph|subparagraph|frametitle)\b|<outline|text:h |^#+ |<li><a href="#|</a></li>', ctx, re.M) and \
            not re.search(rb'(width|height)="?\d', near):
        # some writers trim the blanks / line break at the end of a heading *in the tree* (header_clean_trailing_whitespace), others read them
        return 'heading-text'
    if re.search(rb'(width|height)[=:]"?\d', near):
        return 'image-dimension'
    if re.search(rb'<abbr|class="glossary"|\\ac\{|\\gls\{|\\acrshort|\\acrfull', ctx) and (b'[>' in src or b'[?' in src):
        # the search for abbreviations splits text tokens in the tree; the next export searches the already split tokens
        return 'abbreviation-search'
    if re.search(rb'\[[>?^#]', src) and (ref[i:i + 1] in (b'>', b'?', b'^', b'#') or out[i:i + 1] in (b'>', b'?', b'^', b'#')):
        # the content tokens of an inline note ('[>(abbr) text]', '[?(term) text]', '[^inline note]' ...) are re-parented by the first export
        # (recorded for C15 as well): a later export prints the marker character as text
        return 'inline-note-content'
    return None


def work_exports(job):
    """one parsed tree exported in format A and then in format B (mmd_engine_parse_string once, mmd_engine_export_token_tree twice): the second export
    must be what a fresh process gives when it parses the same text and exports it in format B first"""
    seed, lo, hi = job
    r = core.JobResult()
    with core.Session(r) as s:
        for i in range(lo, hi):
            rng = core.job_rng(seed, ID, 'exports', i)
            docs = pool(core.job_rng(seed, ID, 'pool', i % 7))
            src = docs[rng.randrange(len(docs))]
            if len(src) > 30000:
                continue
            _, ext, lang = rand_opts(rng)
            fa, fb = rng.sample(EXPORT_FMTS, 2)
            outs = {}
            for tag, seq in (('after', (fa, fb)), ('first', (fb,))):
                s.driver('asan').restart()
                hist = [D.req_to_json('asan', 'ENGINE', 0, ext, lang, 0 | (0 << 4), [src]), D.req_to_json('asan', 'ENGINE', 0, 0, 0, 0 | (12 << 4), [b''])]
                ok = all(s.call('asan', *D.req_from_json(q), history=hist[:k], crash_is_violation=False) is not None for k, q in enumerate(hist))
                rep = None
                if ok:
                    for f in seq:
                        rq = D.req_to_json('asan', 'ENGINE', f, 0, 0, 0 | (14 << 4), [b''])
                        hist.append(rq)
                        rep = s.call('asan', *D.req_from_json(rq), history=hist[:-1], crash_is_violation=False)
                        r.evaluations += 1
                        if rep is None:
                            break
                outs[tag] = (rep.out if rep is not None and rep.status == 0 else None, list(hist))
            a, b = outs['after'][0], outs['first'][0]
            if a is None or b is None:
                r.stats['export pair skipped (crash/exit: other properties)'] += 1
                continue
            r.stats['export_pairs_compared'] += 1
            r.distinct.add(core.h64('exp', i, seed))
            if a != b:
                k = 0
                while k < min(len(a), len(b)) and a[k] == b[k]:
                    k += 1
                cause = export_cause(src, b, a, k)
                r.violate(('export-after-export:%s' % cause) if cause else 'export-after-export:%s:%s' % (D.FMT_NAME[fb], classify(src, b, a, k)),
                          'the %s export of a parsed tree differs when a %s export of the same tree came first (byte %d)' % (D.FMT_NAME[fb], D.FMT_NAME[fa], k),
                          dict(requests=outs['after'][1], fresh_requests=outs['first'][1]), 'first : %s\nafter : %s' % (core.show(b[max(0, k - 60):k + 60]), core.show(a[max(0, k - 60):k + 60])))
    return r


def main():
    chk = core.Check(ID)
    n = chk.scale(2000, 60000)
    kmax = 8 if not chk.thorough else 40
    chk.rule = ('history i = f(VERIF_SEED, i): 1..%d steps in one worker process over a pool of ~45 documents (e-mail autolinks, notes, citations, glossary, '
                'headings/TOC, tables, images+css, metadata, CriticMarkup, corpus, generated, one multi-slab document); each step converts through a random API '
                'family or on a reused engine (several formats, metadata queries/updates, resets in between); every output compared with the conversion done '
                'first in a fresh process; non-trivial = more than one step or a document/engine reused' % kmax)
    chk.rule = chk.rule + ' ; plus: text extraction (convert_opml/itmz_to_text) on DString / engine with the source compared byte for byte, engines over an OPML source converted 2-5 times, substring parses on a reused engine, and one parsed tree exported in format A then B versus B exported first'
    chk.assumptions = ['EXT_RANDOM_FOOT / EXT_RANDOM_LABELS excluded as the property excludes them; packaged formats (uuid/date) are compared in C06/C09']
    for e in chk.known.witnesses():
        r = core.JobResult()
        w = e['witness']
        fresh = Fresh(r)
        with core.Session(r) as s:
            v = w['requests'][0]['variant']
            s.driver(v).restart()
            rep = None
            for rq in w['requests']:
                rep = s.call(v, *D.req_from_json(rq), crash_is_violation=False)
                r.evaluations += 1
            fr = w.get('fresh')
            if rep is not None and fr:
                op, fmt, ext, lang, flags, args = D.req_from_json(fr)
                compare(r, fresh, v, w['requests'], 'witness', args[0], fmt, ext, lang, rep.out, 'witness of ' + e['key'])
        chk.merge(r)
    chunk = max(5, n // 64)
    chk.run_jobs(work, [(chk.seed, lo, min(n, lo + chunk), kmax) for lo in range(0, n, chunk)])
    ni = chk.scale(640, 12000)
    chk.run_jobs(work_import, [(chk.seed, lo, min(ni, lo + 20)) for lo in range(0, ni, 20)])
    ne = chk.scale(800, 16000)
    chk.run_jobs(work_exports, [(chk.seed, lo, min(ne, lo + 25)) for lo in range(0, ne, 25)])
    no = chk.scale(320, 6000)
    chk.run_jobs(work_outline_engine, [(chk.seed, lo, min(no, lo + 10)) for lo in range(0, no, 10)])
    return chk.finish()
