"""C10 -- generated anchors and the references to them always match.

Oracle: the href/id graph of the HTML output.  Every note call resolves to an entry, every entry
links back to the first call (not-cited entries exempt), first uses are numbered 1..n in order
(or consistently renamed with random anchors), no duplicate note ids, every cross-reference and
every TOC entry points at an id that exists on the heading/table meant.
"""
import re
from lib import core, gen, drv as D

ID = 'C10'
E = D.EXT
WORDS = ['alpha', 'beta', 'gamma', 'delta', 'omega', 'kappa', 'sigma', 'theta', 'lambda', 'zeta', 'rho', 'tau', 'phi', 'chi', 'psi', 'nu', 'xi', 'pi']
KIND = {'fn': 'footnote', 'cn': 'citation', 'gn': 'glossary'}


class Doc:
    pass


def gen_doc(rng):
    d = Doc()
    nh = rng.randint(0, 6)
    titles = []
    used = set()
    for i in range(nh):
        while True:
            t = ' '.join(rng.sample(WORDS, rng.randint(1, 3))).title()
            if rng.random() < 0.3:
                t += rng.choice(['!', ' & Co', ': part', ' (x)', ' é', ' 2.0', ' -', '?', ' "q"'])
            if label(t) not in used:
                used.add(label(t))
                break
        titles.append(t)
    d.headings = []
    nfn, ncn, ngn = rng.randint(0, 5), rng.randint(0, 4), rng.randint(0, 3)
    fn_ids = ['f%d' % i for i in range(nfn)]
    cn_ids = ['c%d' % i for i in range(ncn)]
    gn_ids = ['g%d' % i for i in range(ngn)]
    not_cited = set(c for c in cn_ids if rng.random() < 0.25)
    ntab = rng.randint(0, 2)
    blocks = []
    wn = [0]

    def w():
        wn[0] += 1
        return 'w%d' % wn[0]

    def call(nested_ok=True):
        r = rng.random()
        if r < 0.3 and fn_ids:
            return '[^%s]' % rng.choice(fn_ids)
        if r < 0.4:
            return '[^inline %s note]' % w()
        if r < 0.6 and cn_ids:
            c = rng.choice(cn_ids)
            if c in not_cited:
                return '[Not cited][#%s]' % c
            return rng.choice(['[#%s]', '[p. 3][#%s]', '[#%s;]', '[][#%s]']) % c
        if r < 0.75 and gn_ids:
            return '[?%s]' % rng.choice(gn_ids)
        if r < 0.8:
            return '[?(term%s) inline gloss %s]' % (w(), w())
        if r < 0.9 and titles:
            return '[%s][]' % rng.choice(titles)
        if ntab:
            return '[tab%d][]' % rng.randrange(ntab)
        return w()

    def para():
        return ' '.join(w() if rng.random() < 0.5 else call() for _ in range(rng.randint(2, 8)))
    for i, t in enumerate(titles):
        lvl = rng.randint(1, 4)
        style = rng.random()
        manual = None
        if style < 0.15:
            manual = 'lab%d' % i
            h = '%s %s [%s]' % ('#' * lvl, t, manual)
        elif style < 0.45:
            h = '%s %s %s' % ('#' * lvl, t, '#' * rng.choice([lvl, 1, 6]))
        elif style < 0.7:
            h = '%s %s' % ('#' * lvl, t)
        else:
            lvl = rng.choice([1, 2])
            h = '%s\n%s' % (t, ('=' if lvl == 1 else '-') * 6)
        d.headings.append(dict(title=t, manual=manual, level=lvl))
        blocks.append(h)
        for _ in range(rng.randint(0, 2)):
            k = rng.random()
            if k < 0.6:
                blocks.append(para())
            elif k < 0.75:
                blocks.append('\n'.join('* ' + para() for _ in range(rng.randint(1, 3))))
            elif k < 0.9:
                blocks.append('> ' + para())
            else:
                blocks.append('| %s | %s |\n|---|---|\n| %s | %s |' % (w(), call(), call(), w()))
    if not titles:
        blocks.append(para())
    for i in range(ntab):
        # '[Caption][label]' labels the table; with a blank between the brackets the second bracket is not a label (the id comes from the caption text)
        cap = rng.choice(['[Caption %d][tab%d]', '[Caption %d][tab%d]', '[Caption %d] [tab%d]', '[tab%d caption %d]']) % (i, i)
        blocks.insert(rng.randrange(len(blocks) + 1), '| a | b |\n|---|---|\n| %s | %s |\n%s' % (w(), w(), cap))
        if rng.random() < 0.5:
            blocks.append('See %s and [Caption %d][].' % ('[tab%d][]' % i, i))
    if rng.random() < 0.35:
        blocks.insert(rng.randrange(len(blocks) + 1), rng.choice(['{{TOC}}', '{{TOC:1-2}}', '{{TOC:2}}', '{{TOC:1-6}}']))
    for _ in range(rng.randint(0, 3)):
        blocks.insert(rng.randrange(len(blocks) + 1), para())
    defs = []
    for f in fn_ids:
        if rng.random() < 0.85:
            nested = rng.choice(['', '', '', '\n\n    > quoted %s\n    > more\n\n    after %s' % (w(), w()), '\n\n    * loose %s\n\n    * item %s\n\n    closing %s' % (w(), w(), w()),
                                 '\n\n    second paragraph %s' % w()])
            defs.append('[^%s]: Footnote %s %s%s' % (f, w(), call() if rng.random() < 0.3 else w(), nested))
    # entries that themselves call notes: the lists are written footnotes, glossary, citations -- a call to a list written later (or to the one being
    # written) is picked up when that list is written; a call to a list already written (d.late) has nowhere to go (recorded finding)
    d.late = set()

    def later_call(kinds):
        k = rng.choice(kinds)
        if k == 'c' and cn_ids:
            c = rng.choice(cn_ids)
            return ('[Not cited][#%s]' if c in not_cited else '[#%s]') % c
        if k == 'g' and gn_ids:
            return '[?%s]' % rng.choice(gn_ids)
        if k == 'f' and fn_ids:
            return '[^%s]' % rng.choice(fn_ids)
        return w()
    for c in cn_ids:
        if rng.random() < 0.9:
            extra = ''
            x = rng.random()
            if x < 0.15:
                extra = ' See ' + later_call(['c'])
            elif x < 0.22:
                k = rng.choice(['f', 'g'])
                extra = ' See ' + later_call([k])
                if extra.startswith(' See ['):
                    d.late.add('footnote' if k == 'f' else 'glossary')
            defs.append('[#%s]: Author %s. *Book %s*.%s' % (c, w(), w(), extra))
    for g in gn_ids:
        if rng.random() < 0.9:
            extra = ''
            x = rng.random()
            if x < 0.3:
                extra = ' see ' + later_call(['c', 'c', 'g'])
            elif x < 0.37:
                extra = ' see ' + later_call(['f'])
                if extra.startswith(' see ['):
                    d.late.add('footnote')
            defs.append('[?%s]: Glossary %s%s' % (g, w(), extra))
    rng.shuffle(defs)
    meta = ''
    if rng.random() < 0.2:
        meta = 'Base Header Level: %d\n\n' % rng.randint(1, 3)
    d.titles = titles
    d.not_cited = not_cited
    d.src = (meta + '\n\n'.join(blocks + defs) + '\n').encode('utf-8')
    return d


def label(s):
    out = ''
    for c in s:
        if ord(c) > 127:
            out += c
        elif c.isalnum() or c in '._-:':
            out += c.lower()
    return out


A_TAG = re.compile(r'<a\s+([^>]*)>', re.S)
ATTR = re.compile(r'(\w+)="([^"]*)"')
ID_ATTR = re.compile(r'\sid="([^"]*)"')


def analyse(r, html, d, ext, case, tag=''):
    """returns number of note calls seen (for non-triviality)"""
    text = html.decode('utf-8', 'replace')
    ids = ID_ATTR.findall(text)
    idset = {}
    for i in ids:
        idset[i] = idset.get(i, 0) + 1
    anchors = []
    for m in A_TAG.finditer(text):
        at = dict(ATTR.findall(m.group(1)))
        anchors.append((m.start(), at))
    random_foot = bool(ext & E['RANDOM_FOOT'])

    suffix = (':random' if random_foot else '') + (':unique' if ext & E['RANDOM_LABELS'] else '') + (':nolabels' if ext & E['NO_LABELS'] else '')

    # --unique: the recorded defects need a manually labelled heading (the two id sequences diverge) or an automatic [Title][] link
    # (its label is fixed at parse time); the same symptom without those ingredients is something else
    has_manual = any(h['manual'] for h in d.headings)

    def bad(key, what):
        cause = ''
        if ext & E['RANDOM_LABELS'] and key.startswith('crossref-') and key != 'crossref-dangling:link':
            cause = ':manual-label-present' if has_manual else ''
        m = re.match(r'(footnote|glossary)-(call-unresolved|backlink-dangling|entries-not-1\.\.n)', key)
        if m and m.group(1) in d.late:
            r.violate(key + ':called-from-an-entry-of-a-list-written-later', what, case, core.show(d.src, 700))
            return
        r.violate(key + suffix + cause + (':' + tag if tag == 'second-export' else ''), what, case, core.show(d.src, 700))
    calls = 0
    for kind, name in KIND.items():
        list_start = text.find('<div class="%ss">' % name) if name != 'glossary' else text.find('<div class="glossary">')
        body_end = list_start if list_start >= 0 else len(text)
        kcalls = [(pos, at) for pos, at in anchors if at.get('href', '').startswith('#%s:' % kind)]
        backs = [(pos, at) for pos, at in anchors if at.get('href', '').startswith('#%sref:' % kind)]
        entries = [i for i in ids if i.startswith('%s:' % kind)]
        calls += len(kcalls)
        # 1. every call resolves to exactly one entry
        for pos, at in kcalls:
            tgt = at['href'][1:]
            if idset.get(tgt, 0) != 1:
                bad('%s-call-%s' % (name, 'unresolved' if idset.get(tgt, 0) == 0 else 'ambiguous'), '%s call links to #%s but %d elements carry that id (entries: %s)' % (name, tgt, idset.get(tgt, 0), entries[:6]))
                break
        # 4. no duplicate ids
        for i in set(entries):
            if idset[i] > 1:
                bad('%s-duplicate-id' % name, 'id %s appears %d times' % (i, idset[i]))
                break
        refids = [i for i in ids if i.startswith('%sref:' % kind)]
        for i in set(refids):
            if idset[i] > 1:
                bad('%s-duplicate-ref-id' % name, 'id %s appears %d times' % (i, idset[i]))
                break
        # 2. every entry links back to the first call
        first_call = {}
        for pos, at in kcalls:
            first_call.setdefault(at['href'][1 + len(kind) + 1:], at)
        for pos, at in backs:
            n = at['href'][1 + len(kind) + 4:]
            tgt = at['href'][1:]
            if idset.get(tgt, 0) == 0:
                if n not in first_call:
                    continue            # never called: an entry introduced through the 'not cited' form (exempt by the property)
                bad('%s-backlink-dangling' % name, 'entry %s links back to #%s which no call carries' % (n, tgt))
                break
            if n in first_call and first_call[n].get('id') != tgt:
                bad('%s-backlink-not-first-call' % name, 'id %s is not on the first call of %s' % (tgt, n))
                break
        # 2b. every entry that some call reaches carries a link back (whatever blocks its text is made of)
        back_targets = set(at['href'][1 + len(kind) + 4:] for pos, at in backs)
        for n in first_call:
            if ('%s:%s' % (kind, n)) in idset and n not in back_targets:
                bad('%s-entry-without-backlink' % name, 'entry %s:%s is called but carries no link back to #%sref:%s' % (kind, n, kind, n))
                break
        # 3. numbering 1..n in order of first use / entries in order
        if not random_foot:
            nums = [e[len(kind) + 1:] for e in entries]
            if nums != [str(i) for i in range(1, len(nums) + 1)]:
                bad('%s-entries-not-1..n' % name, 'entries are numbered %s' % nums[:12])
            seen = []
            for pos, at in kcalls:
                if pos < body_end:
                    n = at['href'][1 + len(kind) + 1:]
                    if n not in seen:
                        seen.append(n)
            if seen != [str(i) for i in range(1, len(seen) + 1)] and all(x.isdigit() for x in seen):
                # notes first used inside another note take their number when the list is written; body order must still be increasing
                if [int(x) for x in seen] != sorted(int(x) for x in seen):
                    bad('%s-first-use-order' % name, 'first uses in the body are numbered %s' % seen[:12])
        else:
            # consistently renamed: the set of call targets == set of entry ids
            tg = set(at['href'][1:] for pos, at in kcalls)
            if tg - set(entries):
                bad('%s-call-unresolved' % name, 'random anchors: calls link to %s, entries are %s' % (sorted(tg - set(entries))[:4], entries[:6]))
    # 5. cross references and TOC entries
    for pos, at in anchors:
        h = at.get('href', '')
        if h.startswith('#') and not re.match(r'#(fn|cn|gn)(ref)?:', h):
            tgt = h[1:]
            if idset.get(tgt, 0) == 0:
                ds = text.rfind('<div class="TOC"', 0, pos)
                in_toc = ds >= 0 and text.find('</div>', ds) > pos
                bad('crossref-dangling:%s' % ('toc' if in_toc else 'link'),
                    'link to #%s but no element carries that id' % tgt)
                break
    # the heading meant: an auto cross-reference [Title][] that became a link must point at the id on the heading with that title
    for h in d.headings:
        for m in re.finditer(r'<a href="#([^"]*)">%s</a>' % re.escape(html_text(h['title'])), text):
            tgt = m.group(1)
            hm = re.search(r'<h\d id="%s">(.*?)</h\d>' % re.escape(tgt), text, re.S)
            if hm and strip_tags(hm.group(1)).strip() != html_text(h['title']).strip() and text.count('>%s</h' % html_text(h['title'])) == 1:
                bad('crossref-wrong-heading', 'link with text %r points at #%s which is on heading %r' % (h['title'], tgt, strip_tags(hm.group(1))))
                break
    return calls, len([a for _, a in anchors if a.get('href', '').startswith('#')])


def html_text(t):
    return t.replace('&', '&amp;').replace('"', '&quot;').replace('<', '&lt;').replace('>', '&gt;')


def strip_tags(s):
    return re.sub(r'<[^>]*>', '', s)


def work(job):
    seed, lo, hi = job
    r = core.JobResult()
    with core.Session(r) as s:
        for i in range(lo, hi):
            rng = core.job_rng(seed, ID, i)
            d = gen_doc(rng)
            base = D.EXT_CLI & ~E['SMART'] if rng.random() < 0.5 else D.EXT_CLI
            for ext in (base, base | E['RANDOM_FOOT'], base | E['RANDOM_LABELS'], base | E['NO_LABELS'], base | E['COMPLETE']):
                if ext != base and rng.random() < 0.5:
                    continue
                rq = D.req_to_json('asan', 'CONVERT', 0, ext, 0, 1 | (1 << 4), [d.src])
                rep = s.call('asan', 'CONVERT', 0, ext, 0, 1 | (1 << 4), [d.src], crash_is_violation=False)
                r.evaluations += 1
                if rep is None or rep.status:
                    continue
                calls, links = analyse(r, rep.out, d, ext, dict(requests=[rq]))
                r.stats['note_calls_checked'] += calls
                r.stats['internal_links_checked'] += links
                if calls >= 2 and links >= 3:
                    r.distinct.add(core.h64(d.src, ext))
            if i % 6 == 0:
                # parse once, export twice from the same tree: the second rendering must be as consistent as the first
                hist = []

                def eng(fmt, sub, args, ext=base):
                    rq = D.req_to_json('asan', 'ENGINE', fmt, ext, 0, 0 | (sub << 4), args)
                    hist.append(rq)
                    rep = s.call('asan', *D.req_from_json(rq), history=hist[:-1], crash_is_violation=False)
                    r.evaluations += 1
                    return rep
                if eng(0, 0, [d.src]) is not None and eng(0, 12, [b'']) is not None:
                    ok = True
                    for k in range(2):
                        rep = eng(0, 14, [b''])
                        if rep is None:
                            ok = False
                            break
                        if rep.status == 0:
                            analyse(r, rep.out, d, base, dict(requests=list(hist)), tag='second-export' if k else 'first-export')
                            r.stats['tree_exports_checked'] += 1
                    if ok:
                        eng(0, 9, [b''])
            if i % 6 == 3:
                epub_nav(r, s, d, base | (E['RANDOM_LABELS'] if rng.random() < 0.5 else 0))
            if i - lo < 1:
                r.samples.append(dict(source=core.show(d.src, 400)))
    return r


def epub_nav(r, s, d, ext):
    """the navigation document of an EPUB links into the main document: every main.xhtml#id it names must exist there"""
    import io, zipfile
    rq = D.req_to_json('asan', 'CONVERT', D.FMT['epub'], ext, 0, 1 | (1 << 4), [d.src])
    rep = s.call('asan', 'CONVERT', D.FMT['epub'], ext, 0, 1 | (1 << 4), [d.src], crash_is_violation=False)
    r.evaluations += 1
    if rep is None or rep.status:
        return
    try:
        z = zipfile.ZipFile(io.BytesIO(rep.out))
        nav = z.read('OEBPS/nav.xhtml').decode('utf-8', 'replace')
        main = z.read('OEBPS/main.xhtml').decode('utf-8', 'replace')
    except Exception:
        return
    # main.xhtml is written by the HTML writer through its own branch of the exporter: the same reference checks apply to it
    calls, links = analyse(r, main.encode('utf-8'), d, ext | E['COMPLETE'], dict(requests=[rq], member='OEBPS/main.xhtml'), tag='epub-main')
    r.stats['epub_main_note_calls_checked'] += calls
    ids = set(re.findall(r'\bid="([^"]*)"', main))
    targets = re.findall(r'href="main\.xhtml#([^"]*)"', nav)
    r.stats['epub_nav_links_checked'] += len(targets)
    missing = [t for t in targets if t not in ids]
    if missing:
        unique = bool(ext & E['RANDOM_LABELS'])
        cause = ''
        if unique and any(h['manual'] for h in d.headings):
            cause = ':manual-label-present'
        r.violate('epub-nav-dangling%s%s' % (':unique' if unique else '', cause), 'EPUB nav.xhtml links to main.xhtml#%s but main.xhtml has no such id (%d of %d entries dangle)' % (missing[0], len(missing), len(targets)),
                  dict(requests=[rq]), core.show(d.src, 600))


def main():
    chk = core.Check(ID)
    n = chk.scale(10000, 200000)
    chk.rule = ('document i = f(VERIF_SEED, i): 0-6 headings (ATX with/without closing #, Setext, manual labels, punctuation/Unicode titles), 0-5 footnotes, 0-4 citations '
                '(plain, locator, ;, not-cited), 0-3 glossary entries, inline notes, notes nested in notes/lists/quotes/tables, reused and undefined labels, cross-references '
                'to headings and captioned tables, {{TOC}} variants, base header level; x {default, random footnote anchors, random labels, no labels, complete}; '
                'non-trivial = >= 2 note calls and >= 3 internal links; distinct = distinct (source, ext)')
    chk.rule = chk.rule + ' ; plus: glossary / citation entries that call notes, notes made of nested blocks, caption shapes with references by label, every called entry must carry a back-link, EPUB main.xhtml analysed like HTML'
    chk.assumptions = ['entries whose number no call carries are not-cited entries (exempt from the back-link rule, as the property says)']
    chunk = max(20, n // 64)
    chk.run_jobs(work, [(chk.seed, lo, min(n, lo + chunk)) for lo in range(0, n, chunk)])
    return chk.finish()
