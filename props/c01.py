"""C01 -- memory-safe, crash-free conversion of arbitrary input.

Oracle: ASan+UBSan (fatal) on two builds (pool on / DISABLE_OBJECT_POOL), exit() interception,
returned-DString probe.  Workload: hostile byte strings x all 13 formats x random extension
subsets x 7 languages, through every text-accepting entry point.
"""
import os, tempfile, shutil
from lib import core, gen, drv as D

ID = 'C01'
VARIANTS = ['asan', 'asan-nopool']


def gen_case(rng, tdir):
    """Returns (op, fmt, ext, lang, flags, args, tag)."""
    r = rng.random()
    fmt = rng.choice(gen.ALL_FORMATS)
    ext = gen.rand_ext(rng)
    lang = rng.choice(gen.LANGS)
    if r < 0.66:
        q = rng.random()
        if q < 0.08:
            src = gen.fit_length(rng, gen.gen_bytes(rng, 200))          # exact buffer-boundary lengths
        elif q < 0.20:
            src = gen.line_sequence(rng)                                # "document ends right after <line kind>", with and without final EOL
        elif q < 0.215:
            src = gen.repeated_blocks(rng)[1]                           # per-document counters and limits
        elif q < 0.245:
            # formats that collect assets copy image / css destinations into scratch buffers of their own: boundary lengths, in those formats
            n = rng.choice([99, 100, 127, 128, 255, 256, 257, 500, 507, 508, 509, 511, 512, 513, 600, 800, 990, 994, 995, 996, 998, 999, 1000, 1001, 1023, 1024, 1100, 2047, 2048, 4096])
            u = b'u' * max(1, n - 4) + b'.png'
            src = rng.choice([b'![alt](%s)\n', b'![alt](%s "title")\n', b'text ![a](%s) and ![b](%s)\n' if False else b'text ![a](%s) more\n', b'![r][i]\n\n[i]: %s\n', b'![r][i]\n\n[i]: %s "t" width=40px\n',
                              b'css: %s\n\nbody\n', b'![alt](<%s>)\n', b'[![alt](%s)](http://e.x/)\n']) % u
            fmt = rng.choice([1, 6, 7, 8, 12])
        else:
            src = gen.gen_bytes(rng)
        family = rng.randrange(3)
        variant = rng.choice([0, 1, 1, 1, 2])
        if variant == 0 and fmt in (1, 6, 7, 8, 10):
            variant = 1        # binary results only make sense through to_data
        dirgiven = rng.random() < 0.3 or variant == 2
        args = [src] + ([tdir] if dirgiven else []) + ([os.path.join(tdir, 'out', 'o%d' % rng.randrange(4))] if variant == 2 else [])
        return ('CONVERT', fmt, ext, lang, family | (variant << 4) | (int(dirgiven) << 8), args, 'convert')
    if r < 0.74:
        src = gen.gen_bytes(rng) if rng.random() < 0.5 else gen.amplifier_meta(rng)
        sub = rng.randrange(4)
        key = rng.choice([b'title', b'Title', b'T i t l e', b'', b' ', b'author', b'nokey', b'base header level', b'a:b', b'\xc3\xa0', b'x' * 300])
        val = rng.choice([b'v', b'', b' ', b'multi\nline', b'a: b', b'\xc3\xa0\xc2\xa0', b'v' * 2000, b'&<>"', b'\n', b'x\n\ny'])
        return ('META', 0, ext & ~(D.EXT['PARSE_OPML'] | D.EXT['PARSE_ITMZ']), 0, rng.randrange(3) | (sub << 4), [src, key, val], 'meta')
    if r < 0.80:
        src = gen.gen_bytes(rng) if rng.random() < 0.4 else gen.critic_bytes(rng)
        rej = rng.randrange(2)
        if rng.random() < 0.4:
            n = len(src)
            s = rng.choice([0, 1, n // 2, max(n - 1, 0), n, rng.randrange(n + 1)])
            l = rng.choice([0, 1, n, max(n - s, 0), rng.randrange(n + 1)])
            if s + l > n:
                l = n - s       # the API documents a range inside the string
            return ('CRITIC', 0, 0, 0, rej | (1 << 4), [src, s, l], 'critic-range')
        return ('CRITIC', 0, 0, 0, rej, [src], 'critic')
    if r < 0.87:
        src = gen.hostile_opml(rng)
        if rng.random() < 0.5:
            return ('IMPORT', 0, 0, 0, rng.randrange(3), [src], 'opml-import')
        # through the converter with EXT_PARSE_OPML
        return ('CONVERT', rng.choice([0, 2, 5, 11, 9]), (ext | D.EXT['PARSE_OPML']) & ~D.EXT['PARSE_ITMZ'], lang, 2 | (1 << 4), [src], 'opml-convert')
    if r < 0.91:
        k = rng.random()
        md = gen.hostile_opml(rng).replace(b'<opml', b'<iThoughts').replace(b'outline', rng.choice([b'topic', b'topic', b'outline']))
        if k < 0.6:
            src = gen.make_itmz(md)
        elif k < 0.8:
            z = gen.make_itmz(md)
            src = z[:rng.randrange(len(z))]
        else:
            src = gen.gen_bytes(rng)
        src = src.replace(b'\0', b'\x01') if rng.random() < 0.3 else src
        fam = rng.choice([1, 1, 0, 2])      # only the DString family can carry NUL bytes
        if rng.random() < 0.5:
            return ('IMPORT', 0, 0, 0, fam | (1 << 4), [src], 'itmz-import')
        return ('CONVERT', rng.choice([0, 2, 5, 11]), (ext | D.EXT['PARSE_ITMZ']) & ~D.EXT['PARSE_OPML'], lang, 1 | (1 << 4), [src], 'itmz-convert')
    if r < 0.96:
        src = rng.choice([b'{{a.txt}}\n', b'{{b.md}} {{a.txt}}\n', b'x {{missing}} y\n', b'{{self.txt}}', b'{{c.*}}', b'transclude base: sub\n\n{{d.txt}}\n',
                          b'{{' + b'n' * rng.choice([10, 998, 999, 1000, 1001, 1100, 1200]) + b'}}', b'{{TOC}}{{a.txt}}', b'{{a.txt', b'{{}}', b'{{/etc/hostname}}',
                          b'```\n{{a.txt}}\n```\n', gen.gen_bytes(rng) + b'{{a.txt}}'])
        if rng.random() < 0.25:
            return ('MANIFEST', 0, ext, 0, rng.randrange(3), [src, tdir, os.path.join(tdir, 'top.txt')], 'manifest')
        # flag 2: no search path given (then only a 'transclude base' in the text can name one)
        return ('TRANSCLUDE', rng.choice([0, 2, 5, 11]), 0, 0, rng.choice([0, 0, 2]), [src, tdir, os.path.join(tdir, rng.choice(['top.txt', 'self.txt']))], 'transclude')
    if r < 0.98:
        return ('HEADFOOT', 0, 0, 0, 0, [gen.amplifier_meta(rng) if rng.random() < 0.7 else gen.gen_bytes(rng)], 'headfoot')
    src = gen.gen_bytes(rng)
    n = len(src)
    s = rng.randrange(n + 1)
    return ('WALK', 0, ext & ~(D.EXT['PARSE_OPML'] | D.EXT['PARSE_ITMZ']), lang, 1, [src, b'', s, rng.randrange(n - s + 1)], 'parse-substring')


def make_tdir():
    t = tempfile.mkdtemp(prefix='mmdv-c01-', dir=D.SCRATCH_ROOT)
    os.makedirs(os.path.join(t, 'sub'))
    os.makedirs(os.path.join(t, 'out'))
    files = {'a.txt': b'Title: inc\n\nincluded *a* {{b.md}}\n', 'b.md': b'b text\n', 'self.txt': b'me {{self.txt}}\n', 'c.html': b'<b>c</b>', 'c.tex': b'\\c', 'c.fodt': b'<c/>',
             'c.txt': b'ctxt', 'sub/d.txt': b'deep {{../a.txt}}\n', 'top.txt': b'{{a.txt}}', 'img.png': b'\x89PNG\r\n\x1a\n' + b'0' * 64, 'a.css': b'p{}'}
    for k, v in files.items():
        open(os.path.join(t, k), 'wb').write(v)
    return t


def work(job):
    seed, lo, hi = job
    r = core.JobResult()
    tdir = make_tdir()
    try:
        with core.Session(r) as s:
            for i in range(lo, hi):
                rng = core.job_rng(seed, ID, i)
                op, fmt, ext, lang, flags, args, tag = gen_case(rng, tdir)
                for v in VARIANTS:
                    rep = s.call(v, op, fmt, ext, lang, flags, args, what='[%s fmt=%s ext=%#x]' % (tag, D.FMT_NAME.get(fmt), ext))
                    r.evaluations += 1
                    r.stats['exec:' + v] += 1
                    r.stats['entry:' + tag] += 1
                    if rep is not None:
                        r.stats['returned'] += 1
                        if 'cap-understated' in rep.diag:
                            r.stats['note:capacity-understated-result'] += 1
                r.sets['formats'].add(D.FMT_NAME.get(fmt, str(fmt)))
                r.sets['ext_sets'].add(ext) if len(r.sets['ext_sets']) < 5000 else None
                r.distinct.add(core.h64(tag, fmt, ext, lang, flags, *args))
                if i - lo < 2:
                    r.samples.append(dict(entry=tag, format=D.FMT_NAME.get(fmt), ext=hex(ext), lang=lang, source=core.show(args[0], 160)))
    finally:
        shutil.rmtree(tdir, ignore_errors=True)
    return r


def work_memcheck(job):
    """the same cases on the uninstrumented build under valgrind memcheck (use of uninitialised values)"""
    seed, lo, hi = job
    r = core.JobResult()
    tdir = make_tdir()
    try:
        with core.Session(r, timeout=20.0) as s:
            for i in range(lo, hi):
                rng = core.job_rng(seed, ID, 'memcheck', i)
                op, fmt, ext, lang, flags, args, tag = gen_case(rng, tdir)
                if op == 'CONVERT' and fmt in (1, 6, 7, 8, 10):
                    fmt = 0          # deflated output carries miniz's (benign, suppressed) look-ahead taint into the result bytes
                if len(args[0]) > 1500:
                    args = [args[0][:1500]] + list(args[1:])
                    if op == 'CRITIC' and flags & 16:
                        continue
                rep = s.call('memcheck:plain', op, fmt, ext, lang, flags, args, what='[memcheck %s fmt=%s ext=%#x]' % (tag, D.FMT_NAME.get(fmt), ext))
                r.evaluations += 1
                r.stats['exec:memcheck'] += 1
                r.distinct.add(core.h64('mc', tag, fmt, ext, lang, flags, *args))
    finally:
        shutil.rmtree(tdir, ignore_errors=True)
    return r


def replay_known(chk):
    """Replay witnesses of known / fixed findings first (regression + 'observed in this run')."""
    r = core.JobResult()
    with core.Session(r) as s:
        for e in chk.known.witnesses():
            for rq in e['witness'].get('requests', []):
                op, fmt, ext, lang, flags, args = D.req_from_json(rq)
                s.call(rq['variant'], op, fmt, ext, lang, flags, args, what='[witness of %s]' % e['key'])
                r.evaluations += 1
    chk.merge(r)


def work_long_keys(job):
    """very long single keys of the search tables (thorough tier): the abbreviation / glossary trie is prepared by a function that calls itself once per
    key byte; run on the uninstrumented build with the shipped flags under the default 8 MiB stack"""
    from props import c07
    seed, form, n = job
    r = core.JobResult()
    unit = b'ab'
    key = unit * (n // len(unit))
    src = form % (key, key)
    res = c07.run_cost('plain', D.FMT['html'], D.EXT_CLI, src, timeout=1500)
    r.evaluations += 1
    r.stats['long_key_runs'] += 1
    case = dict(note='source = %r %% (key, key) with key = b"ab" * %d; harness/cost on the plain build, RLIMIT_STACK 8 MiB' % (form, n // 2), key_bytes=n)
    if res['rc'] == 'timeout':
        r.inconclusive.append('long key of %d bytes: no result within the time limit' % n)
    elif res['rc'] != 0:
        import signal
        sig = signal.Signals(-res['rc']).name if isinstance(res['rc'], int) and res['rc'] < 0 else 'rc%s' % res['rc']
        r.violate('crash:%s:search-table-key-of-%d-bytes' % (sig, n), 'a %d-byte abbreviation/glossary key: the child ended with %s under an 8 MiB stack' % (n, sig), case, res.get('err'))
    else:
        r.distinct.add(('longkey', form, n))
    return r


def main():
    chk = core.Check(ID)
    n = chk.scale(20000, 1500000)
    chk.rule = ('case i = f(VERIF_SEED, i): hostile bytes (corpus splices, lexer-token dictionary, buffer-size amplifiers, raw bytes) '
                'through one of convert/meta/critic/opml+itmz import/transclude/manifest/headfoot/parse-substring, random format, '
                'random subset of the 17 extension bits, random language; each case executed on asan and asan-nopool builds; '
                'distinct = distinct (entry, format, ext, lang, flags, argument bytes) tuples')
    chk.assumptions = ['ASan/UBSan see red-zone and declared-bound violations only', 'miniz.c compiled without alignment/nonnull-attribute checks (DESIGN 3.1)']
    replay_known(chk)
    chunk = max(50, n // 64)
    jobs = [(chk.seed, lo, min(n, lo + chunk)) for lo in range(0, n, chunk)]
    chk.run_jobs(work, jobs)
    nm = chk.scale(3200, 80000)
    chk.run_jobs(work_memcheck, [(chk.seed, lo, min(nm, lo + 40)) for lo in range(0, nm, 40)])
    if chk.thorough:
        chk.run_jobs(work_long_keys, [(chk.seed, b'[>%s]: x\n\ntext %s\n', 200000), (chk.seed, b'[?%s]: x\n\nterm [?%s]\n', 20000), (chk.seed, b'[>%s]: x\n\ntext %s\n', 2000)])
    if chk.thorough and os.environ.get('VERIF_NO_FUZZ') != '1':
        from lib import fuzz
        fuzz.run(chk, runs=int(200000 * float(os.environ.get('VERIF_SCALE', '1') or 1)))
    return chk.finish()
