"""C06 -- every documented entry point produces the same result.

Oracle: pairwise byte equality between the three API families x {convert, convert_to_data,
convert_to_file} and the command-line tool (stdin, file argument, -o, -b); packaged formats are
compared member-wise after normalising uuids and dates; to_file must create the file; the metadata
query variants must agree with one another and with CLI -m / -e.
"""
import os, re, io, zipfile, subprocess, tempfile, shutil
from lib import core, gen, gendoc, drv as D, build, clibatch

ID = 'C06'
TEXT = ['html', 'latex', 'beamer', 'memoir', 'opml']
PACK = ['epub', 'odt', 'fodt', 'bundlezip', 'itmz', 'textbundle']
CLI_FMT = dict(textbundle='bundle', html='html', latex='latex', beamer='beamer', memoir='memoir', opml='opml', epub='epub', odt='odt', fodt='fodt', bundlezip='bundlezip', itmz='itmz')
BATCH_EXT = dict(textbundle='.textbundle', html='.html', latex='.tex', beamer='.tex', memoir='.tex', fodt='.fodt', odt='.odt', epub='.epub', bundlezip='.textpack', opml='.opml', itmz='.itmz')
LANG_CLI = ['en', 'es', 'de', 'fr', 'nl', 'sv', 'he']
E = D.EXT

UUID = re.compile(rb'[0-9a-fA-F]{8}-[0-9a-fA-F]{4}-[0-9a-fA-F]{4}-[0-9a-fA-F]{4}-[0-9a-fA-F]{12}')
DATE = re.compile(rb'\d{4}-\d\d-\d\dT\d\d:\d\d:\d\d(?:Z|[+-]\d\d:?\d\d)?')


def norm_bytes(b):
    return DATE.sub(b'DATE', UUID.sub(b'UUID', b))


def normalise(fmt, data):
    """canonical comparable form of a result"""
    if data is None:
        return None
    if isinstance(data, tuple):
        return data
    if fmt in ('epub', 'odt', 'bundlezip', 'itmz', 'textbundle'):
        try:
            z = zipfile.ZipFile(io.BytesIO(data))
            mem = [(UUID.sub(b'UUID', n.encode()), norm_bytes(z.read(n))) for n in z.namelist()]
            if fmt == 'textbundle':
                mem = sorted(m for m in mem if not m[0].endswith(b'/'))       # compared with a directory tree: order is not defined
            return ('zip', tuple(mem))
        except Exception as ex:
            return ('notzip', len(data), data[:16])
    if fmt == 'fodt':
        return ('text', norm_bytes(data))
    return ('text', data)


def read_result(path, fname):
    if os.path.isdir(path):
        mem = []
        for d, _, files in os.walk(path):
            for f in files:
                p = os.path.join(d, f)
                mem.append((UUID.sub(b'UUID', os.path.relpath(p, path).encode()), norm_bytes(open(p, 'rb').read())))
        shutil.rmtree(path, ignore_errors=True)
        return ('zip', tuple(sorted(mem)))
    return open(path, 'rb').read()


def cli_flags(ext, lang):
    f = []
    if ext & E['COMPATIBILITY']:
        f.append('-c')
    if not (ext & E['SMART']) and not (ext & E['COMPATIBILITY']):
        f.append('--nosmart')
    if (ext & E['NO_LABELS']) and not (ext & E['COMPATIBILITY']):
        f.append('--nolabels')
    if ext & E['COMPLETE']:
        f.append('-f')
    if ext & E['SNIPPET']:
        f.append('-s')
    if lang:
        f += ['-l', LANG_CLI[lang]]
    return f


def gen_ext(rng):
    if rng.random() < 0.25:
        ext = D.EXT_CLI_COMPAT
    else:
        ext = D.EXT_CLI
        if rng.random() < 0.2:
            ext &= ~E['SMART']
        if rng.random() < 0.2:
            ext |= E['NO_LABELS']
    r = rng.random()
    if r < 0.2:
        ext |= E['COMPLETE']
    elif r < 0.35:
        ext |= E['SNIPPET']
    return ext


def gen_src(rng):
    r = rng.random()
    if r < 0.08:
        return gen.edge_source(rng)             # empty / blank / definitions-only bodies: the boundary of every "write the result" path
    if r < 0.14:
        return gen.state_heavy(rng)
    if r < 0.4:
        d = rng.choice(gen.corpus_list())
        d = d if len(d) < 4000 else d[:4000].rsplit(b'\n', 1)[0] + b'\n'
    elif r < 0.8:
        d = gendoc.random_document(rng).encode()
    else:
        d = gen.amplifier_meta(rng) + b'\n' + gendoc.random_document(rng).encode()
    d = d.split(b'\0')[0]
    # what the CLI pre-processes differently is C12/C13/C20's business
    d = re.sub(rb'(?im)^(mmd ?header|mmd ?footer)\s*:', b'x\\1:', d)
    d = re.sub(rb'\{\{(?!TOC)', b'{ {', d)
    d = re.sub(rb'\{(\+\+|--|~~|==|>>)', b'{ \\1', d)
    try:
        d.decode('utf-8')
    except UnicodeDecodeError:
        d = d.decode('utf-8', 'replace').encode('utf-8')
    return d


def run_cli(cli, args, stdin=None, cwd=None):
    env = dict(os.environ, ASAN_OPTIONS='detect_leaks=0:abort_on_error=0', UBSAN_OPTIONS='print_stacktrace=1')
    p = subprocess.run([cli] + args, input=stdin, stdout=subprocess.PIPE, stderr=subprocess.PIPE, cwd=cwd, env=env, timeout=120)
    return p.returncode, p.stdout, p.stderr


def work(job):
    seed, lo, hi = job
    r = core.JobResult()
    cli = build.build('asan', ('cli',))['cli']
    tdir = tempfile.mkdtemp(prefix='mmdv-c06-', dir=D.SCRATCH_ROOT)
    try:
        with core.Session(r) as s:
            for i in range(lo, hi):
                rng = core.job_rng(seed, ID, i)
                src = gen_src(rng)
                ext = gen_ext(rng)
                lang = rng.choice([0, 0, 0, 1, 2, 3, 4, 5, 6])
                fname = rng.choice(TEXT + TEXT + PACK)
                fmt = D.FMT[fname]
                # a local image next to the source: the directory argument of to_data/to_file and the folder of the CLI's input file name the same place,
                # so the packaged results must carry the same asset (the CLI reading standard input has no folder and is left out of that comparison)
                asset = fname in ('epub', 'odt', 'bundlezip', 'textbundle') and rng.random() < 0.4
                if asset:
                    an = 'pic_%d.png' % i
                    open(os.path.join(tdir, an), 'wb').write(b'\x89PNG\r\n\x1a\n' + bytes(rng.randrange(256) for _ in range(rng.randint(8, 200))))
                    src = src.rstrip(b'\n') + b'\n\n![pic](' + an.encode() + b')\n\nlast w%d\n' % i
                results = {}
                hist = []
                for fam in range(3):
                    for var in range(3):
                        if var == 0 and fname in PACK:
                            continue        # the property lists to_data / to_file / CLI for the packaged formats
                        path = os.path.join(tdir, 'out_%d_%d' % (fam, var))
                        if os.path.isdir(path):
                            shutil.rmtree(path)
                        elif os.path.exists(path):
                            os.unlink(path)
                        args = [src, tdir, path] if var == 2 else ([src, tdir] if asset else [src])
                        flags = fam | (var << 4) | ((1 << 8) if var == 2 or asset else 0)
                        hist.append(D.req_to_json('asan', 'CONVERT', fmt, ext, lang, flags, args))
                        rep = s.call('asan', 'CONVERT', fmt, ext, lang, flags, args, crash_is_violation=False)
                        r.evaluations += 1
                        name = '%s_%s' % (['string', 'd_string', 'engine'][fam], ['convert', 'convert_to_data', 'convert_to_file'][var])
                        if rep is None or rep.status != 0:
                            results[name] = None
                            r.stats['entry point crashed/exited (C01/C02 territory)'] += 1
                            continue
                        if var == 2:
                            if not os.path.exists(path):
                                r.violate('no-file:%s' % name, 'mmd_%s(format %s) returned without creating the file' % (name, fname),
                                          dict(requests=[hist[-1]]), core.show(src, 300))
                                results[name] = 'MISSING'
                                continue
                            results[name] = read_result(path, fname)
                        else:
                            results[name] = rep.out
                # CLI (1 case in 3)
                if i % 3 == 0 or asset:
                    inp = os.path.join(tdir, 'in_%d.txt' % i)
                    open(inp, 'wb').write(src)
                    fl = cli_flags(ext, lang) + ['-t', CLI_FMT[fname]]
                    rc, out, err = run_cli(cli, fl, stdin=src)
                    results['cli_stdin'] = out if rc == 0 and not asset else None
                    rc, out, err = run_cli(cli, fl + ['--notransclude', inp])
                    results['cli_file'] = out if rc == 0 else None
                    o = os.path.join(tdir, 'cli_o')
                    rc, out, err = run_cli(cli, fl + ['--notransclude', '-o', o, inp])
                    results['cli_-o'] = read_result(o, fname) if rc == 0 and os.path.exists(o) else ('MISSING' if rc == 0 else None)
                    rc, out, err = run_cli(cli, fl + ['--notransclude', '-b', inp])
                    b = os.path.join(tdir, 'in_%d' % i + BATCH_EXT[fname])
                    results['cli_-b'] = read_result(b, fname) if rc == 0 and os.path.exists(b) else ('MISSING' if rc == 0 else None)
                    if asset:
                        r.stats['cli_with_local_asset'] += 1
                    for p in (inp, o, b) + ((os.path.join(tdir, an),) if asset else ()):
                        if os.path.isdir(p):
                            shutil.rmtree(p)
                        elif os.path.exists(p):
                            os.unlink(p)
                    r.evaluations += 4
                    r.stats['cli_invocations'] += 4
                # compare
                ref_name = 'd_string_convert_to_data'
                ref = normalise(fname, results.get(ref_name))
                if ref is None:
                    r.stats['reference missing (crash/exit)'] += 1
                    continue
                for name, val in sorted(results.items()):
                    if name == ref_name or val is None or val == 'MISSING':
                        if val == 'MISSING' and name.startswith('cli'):
                            r.violate('no-file:%s' % name, '%s for %s created no file' % (name, fname), dict(requests=[hist[0]]), core.show(src, 300))
                        continue
                    r.stats['pairs_compared'] += 1
                    nv = normalise(fname, val)
                    if nv != ref:
                        bom = ':bom-led-source' if src.startswith(b'\xef\xbb\xbf') and name in ('cli_file', 'cli_-o', 'cli_-b') else ''
                        r.violate('differs:cli-file-input:bom-led-source' if bom else 'differs:%s:%s' % (name, 'package' if fname in PACK else 'text'),
                                  '%s and %s disagree for format %s' % (name, ref_name, fname),
                                  dict(requests=hist, cli_flags=cli_flags(ext, lang) + ['-t', fname]), describe_diff(ref, nv) + '\nsource: ' + core.show(src, 300))
                # metadata queries
                if rng.random() < 0.5:
                    meta_agreement(r, s, rng, src, cli, tdir)
                if rng.random() < 0.25:
                    meta_after_convert(r, s, rng, src)
                if i % 50 == 0:
                    clibatch.flag_relations(r, cli, rng)
                if i % 25 == 0:
                    feats = set(f for f in ('footer', 'transclude', 'critic', 'title') if rng.random() < 0.5)
                    clibatch.batch_vs_single(r, cli, rng, feats, [[], [], ['-a'], ['-r'], ['--nosmart'], ['-f'], ['-s'], ['-c'], ['--nolabels']])
                r.distinct.add(core.h64(src, fmt, ext, lang))
                r.sets['formats'].add(fname)
                if i - lo < 1:
                    r.samples.append(dict(format=fname, ext=hex(ext), lang=lang, entry_points=sorted(results), source=core.show(src, 160)))
    finally:
        shutil.rmtree(tdir, ignore_errors=True)
    return r


def meta_after_convert(r, s, rng, src):
    """the engine variants of the metadata queries must answer the same on an engine that has already converted the document
    (in any format) as the string variants do on the bare text"""
    key = rng.choice([b'title', b'author', b'Title', b'nokey', b'css', b'date'])
    ref = {}
    for sub in (0, 1, 2):
        rep = s.call('asan', 'META', 0, 0, 0, 0 | (sub << 4), [src, key, b''], crash_is_violation=False)
        r.evaluations += 1
        ref[sub] = rep.out if rep is not None and rep.status == 0 else None
    hist = []

    def eng(fmt, sub, args):
        rq = D.req_to_json('asan', 'ENGINE', fmt, D.EXT_CLI, 0, 0 | (sub << 4), args)
        hist.append(rq)
        rep = s.call('asan', *D.req_from_json(rq), history=hist[:-1], crash_is_violation=False)
        r.evaluations += 1
        return rep
    if eng(0, rng.randrange(2), [src]) is None:
        return
    alive = True
    for _ in range(rng.randint(1, 2)):
        if eng(rng.choice([0, 2, 5, 9]), rng.choice([2, 3]), [b'']) is None:
            alive = False
            break
    if alive:
        order = [(4, 0, [b'']), (5, 1, [b'']), (6, 2, [key])]
        rng.shuffle(order)
        for esub, sub, args in order:
            rep = eng(0, esub, args)
            if rep is None:
                alive = False
                break
            got = rep.out if rep.status == 0 else None
            exp = ref[sub]
            if got is None or exp is None:
                continue
            if sub == 0:
                got = got if got.startswith(b'1') else b'0'
                exp = exp if exp.startswith(b'1') else b'0'
            if sub == 2 and got == b'\x01NULL':
                got = b''
            r.stats['engine_metadata_queries_after_convert'] += 1
            if got != exp and not (sub == 2 and exp == b'\x01NULL' and got == b''):
                r.violate('meta-differs:engine-after-convert:%s' % ['has_metadata', 'metadata_keys', 'metavalue_for_key'][sub],
                          'on an engine that already converted the document, mmd_engine_%s answers %s; the string variant on the same text answers %s' %
                          (['has_metadata', 'metadata_keys', 'metavalue_for_key'][sub], core.show(got, 80), core.show(exp, 80)), dict(requests=list(hist)), core.show(src, 300))
    if alive:
        eng(0, 9, [b''])


def describe_diff(a, b):
    if a[0] != b[0]:
        return 'kinds differ: %s vs %s' % (a[0], b[:3])
    if a[0] == 'zip':
        na, nb = [m[0] for m in a[1]], [m[0] for m in b[1]]
        if na != nb:
            return 'member lists differ: %s vs %s' % (na, nb)
        for (n, x), (_, y) in zip(a[1], b[1]):
            if x != y:
                return 'member %s differs: %s' % (n, describe_diff(('text', x), ('text', y)))
    x, y = a[1], b[1]
    i = 0
    while i < min(len(x), len(y)) and x[i] == y[i]:
        i += 1
    return 'first difference at byte %d of %d/%d: reference %s | other %s' % (i, len(x), len(y), core.show(x[max(0, i - 30):i + 50]), core.show(y[max(0, i - 30):i + 50]))


def meta_agreement(r, s, rng, src, cli, tdir):
    key = rng.choice([b'title', b'author', b'Title', b'nokey', b'base header level', b'css'])
    for sub, what in ((0, 'has_metadata'), (1, 'metadata_keys'), (2, 'metavalue_for_key')):
        vals = {}
        for fam in range(3):
            rep = s.call('asan', 'META', 0, 0, 0, fam | (sub << 4), [src, key, b''], crash_is_violation=False)
            r.evaluations += 1
            vals[fam] = rep.out if rep is not None and rep.status == 0 else None
        if sub == 0:
            # the end offset is only meaningful when the answer is true
            vals = {k: (v if v is None or v.startswith(b'1') else b'0') for k, v in vals.items()}
        good = [v for v in vals.values() if v is not None]
        r.stats['metadata_queries_compared'] += 1
        if len(set(good)) > 1:
            r.violate('meta-differs:%s' % what, 'the three %s variants disagree: %s' % (what, {k: core.show(v, 80) for k, v in vals.items()}),
                      dict(requests=[D.req_to_json('asan', 'META', 0, 0, 0, fam | (sub << 4), [src, key, b'']) for fam in range(3)]), core.show(src, 300))
        if sub == 1 and good and rng.random() < 0.3:
            rc, out, err = run_cli(cli, ['-m'], stdin=src)
            r.stats['cli_invocations'] += 1
            if rc == 0 and out != good[0]:
                r.violate('meta-differs:cli-m', 'CLI -m and mmd_string_metadata_keys disagree: %s vs %s' % (core.show(out, 80), core.show(good[0], 80)), dict(stdin_b64=core.b64(src)))
        if sub == 2 and good and rng.random() < 0.3 and key.strip():
            rc, out, err = run_cli(cli, ['-e', key.decode()], stdin=src)
            r.stats['cli_invocations'] += 1
            exp = b'' if good[0] == b'\x01NULL' else good[0] + b'\n'
            if rc == 0 and out != exp:
                r.violate('meta-differs:cli-e', 'CLI -e and mmd_string_metavalue_for_key disagree: %s vs %s' % (core.show(out, 80), core.show(exp, 80)), dict(stdin_b64=core.b64(src), key=key.decode()))


def main():
    chk = core.Check(ID)
    n = chk.scale(1500, 60000)
    chk.rule = ('case i = f(VERIF_SEED, i): corpus / generated / metadata-led document (without mmd header/footer keys, transclusion or CriticMarkup markers) x one of '
                '10 formats x CLI-expressible extension set x language; 9 library results (3 families x convert/to_data/to_file) + 4 CLI modes for every third case; '
                'packages compared member-wise with uuids/dates normalised; metadata query variants compared; distinct = distinct (source, format, ext, lang)')
    chk.assumptions = ['reference for each case is mmd_d_string_convert_to_data (what the CLI itself calls)']
    chunk = max(5, n // 64)
    chk.run_jobs(work, [(chk.seed, lo, min(n, lo + chunk)) for lo in range(0, n, chunk)])
    return chk.finish()
