"""C18 -- the shared token pool honours its init/drain/free protocol.

harness/pool_hist.c (ASan+UBSan build, pool on) executes well-bracketed histories over
{I init, D drain, F free, C convert, P parse-and-keep, X inspect+export+free a kept engine} with
documents sized around the 1024-token slab boundary.  Monitors: ASan on slab memory, pool-state hook
invariants after every call, allocated bytes back to the recorded levels at the outermost drain and
after free, outputs equal to the first conversion, the tree walker on every kept engine.
"""
import os, re, struct, subprocess, tempfile, shutil
from lib import core, gen, build, drv as D

ID = 'C18'
ENV = dict(os.environ, ASAN_OPTIONS='abort_on_error=1:detect_leaks=0:allocator_may_return_null=1', UBSAN_OPTIONS='print_stacktrace=1:halt_on_error=1:abort_on_error=1')


_DOCS = None


def make_docs():
    """documents whose parse allocates ~26 ... ~68000 tokens, six of them calibrated (by measuring with the harness) to allocate
    exactly 1023, 1024, 1025, 2047, 2048 and 2049 tokens when such counts are reachable"""
    global _DOCS
    if _DOCS is not None:
        return _DOCS
    unit = 'x *y* `z` [l](u) '

    def doc(k, extra=0, tail=''):
        lines = []
        for i in range(k):
            lines.append(unit + 'w%d' % i)
            if i % 5 == 4:
                lines.append('')
        return ('\n'.join(lines) + '\n' + ('\n' + ' '.join('*e%d*' % j for j in range(extra)) + tail + '\n' if (extra or tail) else '')).encode()
    docs = [doc(1), doc(300), doc(3000)]
    cands = [doc(k, e, t) for k in (43, 44, 88, 89) for e in range(0, 14) for t in ('', ' z', ' z `c`', ' [a]', ' a_b', ' &amp; q')]
    counts = measure(cands)
    want = {1023, 1024, 1025, 2047, 2048, 2049}
    picked = {}
    for d, c in zip(cands, counts):
        if c in want and c not in picked:
            picked[c] = d
    # nearest neighbours when an exact count is not reachable
    for wnt in sorted(want):
        if wnt not in picked:
            j = min(range(len(cands)), key=lambda i: abs(counts[i] - wnt))
            picked[wnt] = cands[j]
    docs += [picked[k] for k in sorted(picked)]
    c = gen.corpus()
    for name in ('tests/MMD6Tests/Tables.text', 'tests/MMD6Tests/Reference Footnotes.text', 'tests/MMD6Tests/Nested Lists.text'):
        if name in c:
            docs.append(c[name])
    docs.append(b'mail <me@example.org> [^n]\n\n[^n]: note\n\n# H #\n\n{{TOC}}\n')
    _DOCS = docs
    return docs


def write_docs(docs, path):
    with open(path, 'wb') as f:
        f.write(struct.pack('<I', len(docs)))
        for d in docs:
            f.write(struct.pack('<I', len(d)) + d)


class CalibrationDied(Exception):
    def __init__(self, rc, report, done):
        Exception.__init__(self, 'calibration died')
        self.rc, self.report, self.done = rc, report, done


def measure(docs):
    exe = build.build('asan', ('pool_hist',))['pool_hist']
    t = tempfile.mkdtemp(prefix='mmdv-c18m-', dir=D.SCRATCH_ROOT)
    try:
        write_docs(docs, os.path.join(t, 'd.bin'))
        p = subprocess.run([exe, os.path.join(t, 'd.bin'), 'measure'], stdout=subprocess.PIPE, stderr=subprocess.PIPE, env=ENV)
        counts = [int(x) for x in re.findall(r'TOKENS \d+ (\d+)', p.stdout.decode())]
        if p.returncode != 0 or len(counts) != len(docs):
            # the measuring pass is itself a history (init, parse, count, drain, free, once per document): dying in it is a finding, not a harness problem
            raise CalibrationDied(p.returncode, (p.stdout + p.stderr).decode('utf-8', 'replace'), len(counts))
        return counts
    finally:
        shutil.rmtree(t, ignore_errors=True)


def gen_history(rng, ndocs, maxlen):
    """random well-bracketed history ending freed"""
    seq = []
    depth = 0
    kept = []       # (slot index, depth created)
    free_slots = list(range(8))
    n = rng.randint(3, maxlen)
    while len(seq) < n:
        choices = ['I']
        if depth >= 1:
            choices += ['C', 'C', 'P', 'I']
            if kept:
                choices += ['X', 'X']
            # D allowed if no kept engine was created at this depth or deeper... (they must be X-ed before the drain closing their depth or any enclosing one)
            if not any(kd >= depth for _, kd in kept):
                choices += ['D', 'D']
        op = rng.choice(choices)
        if op == 'I':
            if depth >= 4:
                continue
            depth += 1
            seq.append('I')
        elif op == 'D':
            depth -= 1
            seq.append('D')
            if depth == 0 and rng.random() < 0.5:
                seq.append('F')
        elif op == 'C':
            seq.append('C%d' % rng.randrange(ndocs))
        elif op == 'P':
            if not free_slots:
                continue
            k = free_slots.pop(0)
            kept.append((k, depth))
            seq.append('P%d' % rng.randrange(ndocs))
        elif op == 'X':
            k, kd = kept.pop(rng.randrange(len(kept)))
            free_slots.append(k)
            free_slots.sort()
            seq.append('X%d' % k)
    # close: X every kept engine (innermost first), then drain to 0 and free
    for k, kd in sorted(kept, key=lambda t: -t[1]):
        seq.append('X%d' % k)
    seq += ['D'] * depth
    if not seq or seq[-1] != 'F':
        seq.append('F')
    return seq


CANON = [['I', 'C0', 'D', 'F'], ['I', 'I', 'C1', 'D', 'D', 'F'], ['I', 'I', 'C0', 'D', 'I', 'C5', 'D', 'I', 'C9', 'D', 'D', 'F'], ['I', 'P4', 'I', 'C11', 'D', 'X0', 'D', 'F'],
         ['I', 'C11', 'D', 'I', 'C11', 'D', 'F', 'I', 'C0', 'D', 'F'], ['I', 'P5', 'P6', 'I', 'I', 'C10', 'D', 'D', 'X1', 'X0', 'D', 'F'], ['I', 'D', 'F', 'I', 'D', 'F'],
         ['I', 'D', 'I', 'C3', 'D', 'F']]


def slot_fix(seq):
    """the harness assigns P to the lowest free slot: recompute X targets accordingly (generator and harness agree by construction)"""
    return seq


def work(job):
    seed, lo, hi, maxlen = job
    r = core.JobResult()
    exe = build.build('asan', ('pool_hist',))['pool_hist']
    tdir = tempfile.mkdtemp(prefix='mmdv-c18-', dir=D.SCRATCH_ROOT)
    try:
        try:
            docs = make_docs()
        except CalibrationDied as e:
            if lo == 0:
                r.evaluations += 1
                r.distinct.add('calibration')
                r.distinct.add('calibration-died')
                r.violate('pool:calibration:' + D.sanitizer_key(e.report, e.rc), 'the history "init, parse, count tokens, drain, free" repeated per document died after %d documents (rc %s)' % (e.done, e.rc),
                          dict(history='measure'), e.report[-3000:])
            return r
        df = os.path.join(tdir, 'docs.bin')
        with open(df, 'wb') as f:
            f.write(struct.pack('<I', len(docs)))
            for d in docs:
                f.write(struct.pack('<I', len(d)) + d)
        if lo == 0:
            toks = measure(docs)
            for t in toks:
                r.sets['document_token_counts'].add(t)
            r.samples.append(dict(document_token_counts=toks, note='slab = 1024 tokens'))
        seqs = []
        for i in range(lo, hi):
            if i < len(CANON):
                seqs.append(CANON[i])
            else:
                rng = core.job_rng(seed, ID, i)
                seqs.append(gen_history(rng, len(docs), maxlen))
        pos = 0
        while pos < len(seqs):
            inp = ''.join(' '.join(q) + '\n' for q in seqs[pos:])
            p = subprocess.run([exe, df], input=inp.encode(), stdout=subprocess.PIPE, stderr=subprocess.PIPE, env=ENV, timeout=3000)
            out = p.stdout.decode(errors='replace')
            begun = [int(x) for x in re.findall(r'^SEQ (\d+)', out, re.M)]
            for m in re.finditer(r'^BAD (\d+) (\S+) (.*)$', out, re.M):
                n = int(m.group(1))
                r.violate('pool:%s' % m.group(2), 'history %s: %s %s' % (' '.join(seqs[pos + n]), m.group(2), m.group(3)), dict(history=seqs[pos + n], seed=seed))
            m = re.search(r'^DONE (\d+) (\d+) (\d+)', out, re.M)
            if m:
                r.evaluations += int(m.group(1))
                r.stats['pool_calls'] += int(m.group(2))
                for q in seqs[pos:]:
                    r.distinct.add(' '.join(q))
                    r.sets['nesting_depths_seen'].add(max_depth(q))
                    r.stats['kept_engines_inspected'] += sum(1 for t in q if t[0] == 'X')
                    r.stats['inner_drains'] += inner_drains(q)
                break
            last = begun[-1] if begun else 0
            key = D.sanitizer_key(p.stderr.decode(errors='replace'), p.returncode)
            r.violate('pool:' + key, 'history %s died: %s' % (' '.join(seqs[pos + last]), key), dict(history=seqs[pos + last], seed=seed), p.stderr.decode(errors='replace')[:4000])
            r.evaluations += last + 1
            pos += last + 1
        if lo == 0:
            r.samples.append(dict(history=' '.join(seqs[min(len(seqs) - 1, len(CANON))])))
    finally:
        shutil.rmtree(tdir, ignore_errors=True)
    return r


def max_depth(q):
    d = m = 0
    for t in q:
        if t == 'I':
            d += 1
            m = max(m, d)
        elif t == 'D':
            d -= 1
    return m


def inner_drains(q):
    d = n = 0
    for t in q:
        if t == 'I':
            d += 1
        elif t == 'D':
            d -= 1
            n += 1 if d > 0 else 0
    return n


def replay(case):
    c = case['case']
    exe = build.build('asan', ('pool_hist',))['pool_hist']
    tdir = tempfile.mkdtemp(prefix='mmdv-c18-', dir=D.SCRATCH_ROOT)
    docs = make_docs()
    df = os.path.join(tdir, 'docs.bin')
    with open(df, 'wb') as f:
        f.write(struct.pack('<I', len(docs)))
        for d in docs:
            f.write(struct.pack('<I', len(d)) + d)
    p = subprocess.run([exe, df], input=(' '.join(c['history']) + '\n').encode(), stdout=subprocess.PIPE, stderr=subprocess.PIPE, env=ENV)
    print(p.stdout.decode(), p.stderr.decode()[:5000])
    shutil.rmtree(tdir, ignore_errors=True)
    return 0


def main():
    chk = core.Check(ID)
    n = chk.scale(3000, 80000)
    maxlen = 10 if not chk.thorough else 16
    chk.rule = ('history i = f(VERIF_SEED, i): the CLI\'s own bracketings plus random well-bracketed sequences (length <= %d, depth <= 4, up to 8 kept engines) over init/drain/free/'
                'convert/parse-and-keep/inspect with 16 documents allocating from 10 to ~50000 tokens, nine of them within +-4 lines of the 1024-token slab boundary; every kept engine '
                'is inspected before the drain that closes its depth; distinct = distinct histories; non-trivial by construction (>= 3 calls)' % maxlen)
    chk.assumptions = ['"memory is released" is judged as: allocated bytes after every outermost drain equal those after the first one, and after free equal those before the first init',
                       'reference output of a document = its first conversion in the process, done in its own init/drain/free bracket (fresh-process equality is C05)']
    chunk = max(50, n // 32)
    chk.run_jobs(work, [(chk.seed, lo, min(n, lo + chunk), maxlen) for lo in range(0, n, chunk)])
    return chk.finish()
