"""C14 -- outline export is lossless and re-import reproduces the document.

O1: the OPML parsed with expat carries, per heading, its title and exactly the source bytes up to the
    next heading as the note (preamble and metadata in their reserved items).
O2: for properly nested headings and single-line metadata, html(import(opml(src))) == html(src)
    (also through ITMZ).
O3: unescape(escape(T)) == T for arbitrary valid, control-free text.
"""
import re
import xml.parsers.expat as expat
from lib import core, gen, drv as D

ID = 'C14'
BODY_ATOMS = ['plain words', 'a & b', '<tag>', '"quoted"', "it's", 'x > y', 'a < b', '&amp;', '&#10;', '&lt;b&gt;', '\ttabbed', 'trailing  ', 'line\nbreak', 'two\n\nparas', 'cr\rhere',
              '    code line', '* item\n* item', '> quote', '`code & <x>`', '[link](http://x.y/?a=1&b=2 "T")', 'é 中 \U0001F600', ']]>', '<!-- c -->', '100%', "''", '``', '--', '...', '|a|b|',
              'Term\n: def', '1. one\n2. two', '\\', '\\\\', '![i](p.png)', '^sup^', '~sub~', '$x<y$', 'ends with space ', ' starts with space', '&', '<', '>', "'", '"']
TITLE_WORDS = ['Alpha', 'Beta', 'Gamma', 'Delta', 'A & B', 'x < y', '"Quoted"', "It's", 'Ünï', '中文', 'Tab\there', 'a  b', '100%', '`code`', '*em*']


class Doc:
    pass


def gen_doc(rng, nested=True):
    d = Doc()
    meta = []
    if rng.random() < 0.6:
        for k in rng.sample(['Title', 'Author', 'Date', 'Custom Key', 'Keywords'], rng.randint(1, 3)):
            meta.append((k, rng.choice(['Plain value', 'A & B', 'x < y > z', '"q" \'s\'', 'Ünï 中', 'v  w', 'a: b', '100%'])))
        if rng.random() < 0.35:
            meta.insert(rng.randint(0, len(meta)), ('Base Header Level', rng.choice(['2', '3', '1'])))      # shifts rendered levels, not the outline
    nsec = rng.randint(0, 6) if rng.random() < 0.85 else rng.randint(10, 28)        # also large, deep trees with many siblings per level
    level = 0
    sections = []
    stairs = None
    if nested and nsec >= 10 and rng.random() < 0.4:
        # a staircase: at every depth first a sibling, then the heading that goes one level deeper (depth 6 with an earlier sibling at each level)
        stairs = [l for l in range(1, 7) for _ in range(rng.choice([2, 2, 3]))]
        nsec = max(nsec, len(stairs))
    for i in range(nsec):
        if stairs and i < len(stairs):
            level = stairs[i]
        elif nested:
            level = rng.randint(1, min(level + 1, 6)) if level else 1
        else:
            level = rng.randint(1, 6)
        title = ' '.join(rng.sample(TITLE_WORDS, rng.randint(1, 2))) + ' %d' % i
        body = ''
        for _ in range(rng.choice([0, 1, 1, 2, 3])):
            body += rng.choice(BODY_ATOMS) + '\n\n'
        style = 'setext' if (level <= 2 and rng.random() < 0.3 and '\t' not in title) else 'atx'
        if style == 'setext' and rng.random() < 0.3:
            title = title + '\n' + ' '.join(rng.sample(TITLE_WORDS, rng.randint(1, 2))) + ' b%d' % i      # a Setext title may span lines
        sections.append(dict(level=level, title=title, body=body, style=style, closing=rng.random() < 0.5))
    pre = ''
    if rng.random() < 0.6 or not sections:
        for _ in range(rng.randint(1, 2)):
            pre += rng.choice(BODY_ATOMS) + '\n\n'
        if pre.lstrip().startswith('#') or re.match(r'^[A-Za-z0-9][^\n]*:', pre):
            pre = 'Intro. ' + pre
    src = ''
    d.yaml_tight = False
    if meta:
        if rng.random() < 0.15:
            # a YAML-fenced block; the body may follow the closing fence directly, without a blank line
            src += '---\n' + ''.join('%s: %s\n' % kv for kv in meta) + '---\n'
            if rng.random() < 0.5 and pre and not re.match(r'^[A-Za-z0-9][^\n]*:', pre):
                d.yaml_tight = True
            else:
                src += '\n'
        else:
            src += ''.join('%s: %s\n' % kv for kv in meta) + '\n'
    d.meta_end = len(src.encode('utf-8')) - (1 if meta and not d.yaml_tight else 0)
    src += pre
    d.expect = []       # (depth, title, note) in document order
    for s in sections:
        # a body atom must not turn the following text into something else: make sure a blank line precedes every heading
        if not src.endswith('\n\n') and src:
            src += '\n' if src.endswith('\n') else '\n\n'
        if s['style'] == 'atx':
            # trailing blanks (two of them spell a hard line break anywhere else) or a backslash at the end of the heading line are not part of the title
            trail = rng.choice(['', '', '', '  ', ' ', '   ']) if s['closing'] else rng.choice(['', '', '', '  ', ' ', '\\'])
            h = '#' * s['level'] + ' ' + s['title'] + ((' ' + '#' * s['level']) if s['closing'] else '') + trail + '\n'
        else:
            h = s['title'] + '\n' + ('=' if s['level'] == 1 else '-') * 5 + '\n'
        s['hstart'] = len(src.encode('utf-8'))
        src += h
        s['hend'] = len(src.encode('utf-8'))
        src += '\n' + s['body']
    if sections and not sections[-1]['body'] and not src.rstrip('\n').endswith('\\') and rng.random() < 0.3:          # (a backslash that ends the *input* is a literal backslash)
        # the input ends right after the last heading line (the '#' line or the Setext underline), without a final line break
        src = src.rstrip('\n').rstrip(' ')          # (a single blank after closing hashes at the very end of input keeps the hashes in the title, in every writer: parser territory)
        sections[-1]['hend'] = min(sections[-1]['hend'], len(src.encode('utf-8')))
    d.sections = sections
    d.meta = meta
    d.src = src.encode('utf-8')
    d.pre = pre
    return d


def parse_opml(data):
    """returns list of (depth, text, note) for outline items, or raises"""
    items = []
    depth = [0]
    p = expat.ParserCreate()

    def start(name, attrs):
        if name == 'outline':
            items.append((depth[0], attrs.get('text'), attrs.get('_note')))
            depth[0] += 1

    def end(name):
        if name == 'outline':
            depth[0] -= 1
    p.StartElementHandler = start
    p.EndElementHandler = end
    p.Parse(data, True)
    return items


def check_export(r, s, d):
    rq = D.req_to_json('asan', 'CONVERT', D.FMT['opml'], D.EXT_CLI, 0, 1 | (1 << 4), [d.src])
    rep = s.call('asan', 'CONVERT', D.FMT['opml'], D.EXT_CLI, 0, 1 | (1 << 4), [d.src], crash_is_violation=False)
    r.evaluations += 1
    if rep is None or rep.status:
        return None
    case = dict(requests=[rq])
    try:
        items = parse_opml(rep.out)
    except expat.ExpatError as e:
        r.stats['opml not well-formed (C08 territory)'] += 1
        return None
    src = d.src
    secs = d.sections
    body_items = [it for it in items if it[1] not in ('>>Metadata<<',) and not (it[0] >= 1 and False)]
    # split off the metadata subtree
    out, in_meta, meta_items = [], False, []
    for dep, text, note in items:
        if dep == 0:
            in_meta = (text == '>>Metadata<<')
        if in_meta:
            if dep == 1:
                meta_items.append((text, note))
        else:
            out.append((dep, text, note))
    exp = []
    first = secs[0]['hstart'] if secs else len(src)
    pre = src[d.meta_end + (1 if d.meta else 0) - (1 if d.meta else 0):first]
    pre = src[(d.meta_end if d.meta else 0):first]
    if pre.strip(b'\n') != b'' or not secs:
        exp.append(('>>Preamble<<', pre))
    for i, sc in enumerate(secs):
        nxt = secs[i + 1]['hstart'] if i + 1 < len(secs) else len(src)
        exp.append((sc['title'], src[sc['hend']:nxt]))
    got = [(t, (n or '').encode('utf-8')) for _, t, n in out]
    r.stats['outline_items_compared'] += len(exp)
    if len(got) != len(exp):
        if not (len(got) == len(exp) + 1 and got[0][0] == '>>Preamble<<' and got[0][1].strip(b'\n') == b''):
            r.violate('export:item-count', 'OPML has %d outline items, the document has %d sections' % (len(got), len(exp)), case,
                      'got %s\nexpected %s\nsource: %s' % ([g[0] for g in got], [e[0] for e in exp], core.show(src, 500)))
            return rep.out
        got = got[1:]
    for (gt, gn), (et, en) in zip(got, exp):
        if norm_title(gt) != norm_title(et):
            r.violate('export:title', 'outline item title %r, heading written as %r' % (gt, et), case, core.show(src, 500))
            return rep.out
        # the note holds the source bytes up to the next heading (CR is normalised by XML attribute parsing: compare modulo that)
        if gn.replace(b'\r', b'\n') != en.replace(b'\r', b'\n') and gn.strip(b'\n') != en.strip(b'\n'):
            i = 0
            while i < min(len(gn), len(en)) and gn[i] == en[i]:
                i += 1
            r.violate('export:note-differs', 'the note of %r is not the source text of that section (first difference at byte %d)' % (et, i), case,
                      'note    : %s\nsource  : %s' % (core.show(gn[max(0, i - 40):i + 60]), core.show(en[max(0, i - 40):i + 60])))
            return rep.out
    # metadata values
    for (k, v) in d.meta:
        lab = ''.join(c.lower() for c in k if c.isalnum())
        m = [n for t, n in meta_items if t == lab]
        if not m or re.sub(r'\s+', ' ', m[0] or '').strip() != re.sub(r'\s+', ' ', v).strip():
            r.violate('export:metadata', 'metadata %r exported as %r, written %r' % (k, m[0] if m else None, v), case, core.show(rep.out, 600))
            return rep.out
    return rep.out


def norm_title(t):
    return re.sub(r'\s+', ' ', t or '').strip()


def check_roundtrip(r, s, d, opml, via):
    for ext in (D.EXT_CLI | D.EXT['SNIPPET'], D.EXT_CLI | D.EXT['COMPLETE']):
        rq1 = D.req_to_json('asan', 'CONVERT', 0, ext, 0, 1 | (1 << 4), [d.src])
        a = s.call('asan', *D.req_from_json(rq1), crash_is_violation=False)
        flag = D.EXT['PARSE_OPML'] if via == 'opml' else D.EXT['PARSE_ITMZ']
        rq2 = D.req_to_json('asan', 'CONVERT', 0, ext | flag, 0, 1 | (1 << 4), [opml])
        b = s.call('asan', *D.req_from_json(rq2), crash_is_violation=False)
        r.evaluations += 2
        if a is None or b is None or a.status or b.status:
            continue
        r.stats['roundtrips_compared'] += 1
        if a.out != b.out:
            i = 0
            while i < min(len(a.out), len(b.out)) and a.out[i] == b.out[i]:
                i += 1
            ctx = a.out[max(0, i - 80):i + 10]
            where = 'head' if b'<body>' not in a.out[:i] and ext & D.EXT['COMPLETE'] else 'body'
            r.violate('roundtrip:%s:%s' % (via, where), 'html(import(%s(src))) differs from html(src) at byte %d (%s)' % (via, i, where),
                      dict(requests=[rq1, rq2]), 'direct : %s\nvia %s: %s\nsource: %s' % (core.show(a.out[max(0, i - 60):i + 80]), via, core.show(b.out[max(0, i - 60):i + 80]), core.show(d.src, 400)))
            return


def check_import_api(r, s, d, opml):
    """the three import entry points give the same text; the engine variant leaves its source alone and answers the same when asked again"""
    outs = {}
    for fam in range(3):
        flags = fam | (0 << 4) | (0x100 if fam == 2 else 0)
        rq = D.req_to_json('asan', 'IMPORT', 0, D.EXT_CLI, 0, flags, [opml])
        rep = s.call('asan', *D.req_from_json(rq), crash_is_violation=False)
        r.evaluations += 1
        if rep is None or rep.status:
            return
        outs[fam] = rep.out
        if 'srcmod:' in rep.diag:
            r.violate('import:source-modified:%s' % ['string', 'd_string', 'engine'][fam], 'the OPML source changed during mmd_%s_convert_opml_to_text' % ['string', 'd_string', 'engine'][fam], dict(requests=[rq]))
        if 'import-twice-differs' in rep.diag:
            r.violate('import:engine-second-call-differs', 'mmd_engine_convert_opml_to_text answers differently the second time on the same engine (%s)' % rep.diag, dict(requests=[rq]))
    r.stats['import_api_triples_compared'] += 1
    if len(set(outs.values())) > 1:
        r.violate('import:variants-differ', 'string / DString / engine variants of convert_opml_to_text disagree', dict(requests=[D.req_to_json('asan', 'IMPORT', 0, D.EXT_CLI, 0, f, [opml]) for f in range(3)]))


def check_inverse(r, s, rng):
    n = rng.randint(1, 12)
    t = ''.join(rng.choice(BODY_ATOMS + ['&', '<', '>', '"', "'", '\n', '\t', '\r', '&amp;amp;', '&#13;', '&quot;', ' ']) for _ in range(n))
    tb = t.encode('utf-8')
    rq = D.req_to_json('asan', 'XMLRT', 0, 0, 0, 0, [tb])
    rep = s.call('asan', 'XMLRT', 0, 0, 0, 0, [tb], crash_is_violation=False)
    r.evaluations += 1
    if rep is None or rep.status:
        return
    r.stats['escape_unescape_pairs'] += 1
    if rep.fields[1] != tb:
        i = 0
        while i < min(len(tb), len(rep.fields[1])) and tb[i] == rep.fields[1][i]:
            i += 1
        ch = tb[i:i + 1]
        r.violate('inverse:%s' % ('cr' if ch == b'\r' else ch.decode('latin1')), 'unescape(escape(T)) != T at byte %d' % i, dict(requests=[rq]),
                  'T      : %s\nescaped: %s\nback   : %s' % (core.show(tb, 200), core.show(rep.fields[0], 300), core.show(rep.fields[1], 200)))


def work(job):
    seed, lo, hi = job
    r = core.JobResult()
    with core.Session(r) as s:
        for i in range(lo, hi):
            rng = core.job_rng(seed, ID, i)
            nested = rng.random() < 0.8
            d = gen_doc(rng, nested)
            opml = check_export(r, s, d)
            if opml is not None and nested and '\r' not in d.src.decode('utf-8'):
                check_roundtrip(r, s, d, opml, 'opml')
                if i % 3 == 0:
                    check_import_api(r, s, d, opml)
                if i % 4 == 0:
                    rep = s.call('asan', 'CONVERT', D.FMT['itmz'], D.EXT_CLI, 0, 1 | (1 << 4), [d.src], crash_is_violation=False)
                    r.evaluations += 1
                    if rep is not None and rep.status == 0:
                        check_roundtrip(r, s, d, rep.out, 'itmz')
            for _ in range(3):
                check_inverse(r, s, rng)
            if d.sections:
                r.distinct.add(core.h64(d.src))
            if i - lo < 1:
                r.samples.append(dict(source=core.show(d.src, 300), sections=[(x['level'], x['title']) for x in d.sections]))
    return r


# heading titles at the edge of what an outline item can carry: each shape has its own key (they are recorded findings, see known_findings.json)
TITLE_SHAPES = [
    ('empty-title', b'# One\n\ntext\n\n## ##\n\nfoo\n'),
    ('title-spelled-like-the-preamble-item', b'# >>Preamble<< #\n\nbar\n'),
    ('setext-title-ending-in-a-hash', b'foo #\n===\n\nx\n'),
]


def work_title_shapes(job):
    seed, = job
    r = core.JobResult()
    with core.Session(r) as s:
        for name, src in TITLE_SHAPES:
            rq0 = D.req_to_json('asan', 'CONVERT', D.FMT['opml'], D.EXT_CLI, 0, 1 | (1 << 4), [src])
            rep = s.call('asan', *D.req_from_json(rq0), crash_is_violation=False)
            r.evaluations += 1
            if rep is None or rep.status:
                continue
            ext = D.EXT_CLI | D.EXT['SNIPPET']
            rq1 = D.req_to_json('asan', 'CONVERT', 0, ext, 0, 1 | (1 << 4), [src])
            rq2 = D.req_to_json('asan', 'CONVERT', 0, ext | D.EXT['PARSE_OPML'], 0, 1 | (1 << 4), [rep.out])
            a = s.call('asan', *D.req_from_json(rq1), crash_is_violation=False)
            b = s.call('asan', *D.req_from_json(rq2), crash_is_violation=False)
            r.evaluations += 2
            if a is None or b is None or a.status or b.status:
                continue
            r.stats['title_shapes_compared'] += 1
            r.distinct.add(('shape', name))
            if a.out != b.out:
                r.violate('roundtrip:opml:body:%s' % name, 'html(import(opml(src))) differs from html(src) for a heading with %s' % name.replace('-', ' '), dict(requests=[rq0, rq1, rq2]),
                          'direct : %s\nvia opml: %s\nsource: %s' % (core.show(a.out, 200), core.show(b.out, 200), core.show(src, 200)))
    return r


def main():
    chk = core.Check(ID)
    n = chk.scale(10000, 200000)
    chk.rule = ('document i = f(VERIF_SEED, i): 0-3 single-line metadata keys, optional preamble, 0-6 sections (ATX with/without closing #, Setext; properly nested in 80%% '
                'of cases) with titles and bodies drawn from XML-reserved, whitespace (tab, CR, trailing blanks), entity-looking, multi-byte and block-syntax atoms; '
                'export checked against the section model, round trip through OPML (and ITMZ every 4th) in snippet and complete mode, 3 escape/unescape pairs per case; '
                'non-trivial = >= 1 heading; distinct = distinct sources')
    chk.rule = chk.rule + ' ; plus: input ending right after the last heading line, heading lines ending in blanks or a backslash, YAML-fenced metadata with the body directly after the fence, and three recorded title shapes'
    chk.assumptions = ['a blank line precedes every generated heading', 'CR in notes compared modulo XML attribute-value normalisation on the reading side (expat), round trip not judged for sources with CR']
    chunk = max(20, n // 64)
    chk.run_jobs(work, [(chk.seed, lo, min(n, lo + chunk)) for lo in range(0, n, chunk)])
    chk.run_jobs(work_title_shapes, [(chk.seed,)])
    return chk.finish()
