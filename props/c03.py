"""C03 -- HTML rendering agrees with the documented Markdown/MultiMarkdown semantics.

Three oracles of increasing strength over abstract documents (lib/gendoc.py):
 (a) spelling equivalence: every concrete spelling the documentation declares equivalent renders to
     byte-identical HTML;
 (b) compositionality: a document of blocks that do not refer to one another renders to the
     concatenation of the renderings of its blocks, in any order;
 (c) an independent reference renderer (lib/oracle_html.py) written from the syntax guide.
"""
import random
from lib import core, gendoc as G, oracle_html, drv as D

ID = 'C03'
EXT = D.EXT_CLI & ~D.EXT['SMART']
SAFE = set(['emph', 'strong', 'code', 'link', 'image', 'esc', 'entity', 'break', 'quote', 'list', 'codeblock', 'rule', 'heading', 'table', 'deflist', 'footnote', 'math', 'supsub', 'autolink',
            'figure', 'smart', 'adjacent', 'tight-children', 'heading-inlines', 'colspan', 'nested-indented', 'softbreak', 'deep-items'])
# what plain Markdown (compatibility mode) knows
COMPAT = set(['emph', 'strong', 'code', 'link', 'image', 'esc', 'entity', 'break', 'quote', 'list', 'codeblock', 'rule', 'heading', 'autolink', 'figure', 'indented-only', 'adjacent', 'tight-children', 'heading-inlines', 'nested-indented', 'softbreak', 'deep-items'])
# mode name -> (extensions, smart, compat, features)
MODES = {
    'mmd': (EXT, False, False, SAFE),
    'mmd+smart': (D.EXT_CLI, True, False, SAFE),
    'compat': (D.EXT_CLI_COMPAT, False, True, COMPAT),
}


def html(s, r, src, ext=EXT):
    rq = D.req_to_json('asan', 'CONVERT', 0, ext, 0, 1 | (1 << 4), [src])
    rep = s.call('asan', 'CONVERT', 0, ext, 0, 1 | (1 << 4), [src], crash_is_violation=False)
    r.evaluations += 1
    if rep is None or rep.status:
        return None, rq
    return rep.out.decode('utf-8', 'replace'), rq


def first_diff(a, b):
    i = 0
    while i < min(len(a), len(b)) and a[i] == b[i]:
        i += 1
    return i, 'expected %s\ngot      %s' % (core.show(a[max(0, i - 70):i + 90]), core.show(b[max(0, i - 70):i + 90]))


def leak_class(exp, out, i):
    """a difference that is exactly one extra space right after <li> / <li><p>: the indented-list-marker leak"""
    return out[i:i + 1] == ' ' and (out[:i].endswith('<li>') or out[:i].endswith('<li><p>')) and out[i + 1:i + 6] == exp[i:i + 5]


def diff_class(exp, out, i):
    """name recognisable mechanisms behind a difference (stable key part), else None"""
    if leak_class(exp, out, i):
        return 'list-item-leading-space'
    if exp[:i].endswith('<li>') and out[i:i + 3] == '<p>' and exp[i:i + 3] != '<p>':
        return 'tight-list-rendered-loose'
    if exp[:i].endswith('<li>') and exp[i:i + 3] == '<p>' and out[i:i + 3] != '<p>':
        return 'loose-list-rendered-tight'
    if exp[i:].startswith(' title="') and out[i:i + 1] == '>':
        return 'link-title-dropped'
    if exp[i:i + 3] == '<p>' and exp[:i].endswith('<blockquote>\n') and out[i:i + 3] != '<p>':
        return 'quote-in-tight-item-paragraph-unwrapped'
    if out[i:i + 1] == ' ' and (out[:i].endswith('<br />\n') or out[:i].endswith('<p>')) and out[i + 1:i + 4] == exp[i:i + 3]:
        return 'continuation-line-leading-space'
    # inside <pre><code>: the expected line starts with spaces the output lacks
    pre = exp.rfind('<pre><code', 0, i)
    if pre >= 0 and exp.find('</code></pre>', pre) > i and exp[i:i + 1] == ' ' and (exp[:i].endswith('\n') or exp[:i].endswith('>')):
        first = exp[:i].endswith('>')
        if '<blockquote>' in exp[:pre]:
            return 'code-in-quote-indentation-lost' + (':first-line' if first else '')
        return 'nested-code-indentation-lost' + (':first-line' if first else '')
    if pre >= 0 and exp.find('</code></pre>', pre) > i and out[i:i + 1] == ' ' and '<blockquote>' in exp[:pre]:
        # the output line has one space more than the source line: "> " + 3 spaces is read as "4 spaces after '>'"
        ls = max(exp.rfind('\n', 0, i), exp.rfind('>', 0, i)) + 1
        lead = len(exp[ls:i]) if exp[ls:i].strip(' ') == '' else -1
        if lead >= 0 and (lead + 1) % 4 == 0:
            return 'fenced-code-in-quote:three-space-indent-becomes-four'
    m = exp.rfind('<code class="', 0, i + 1)
    if m >= 0 and out[m + 13:m + 14] == '`':
        return 'fence-read-as-language'
    return None


def construct_at(doc, expected, pos):
    """which top-level block of the AST produced expected[pos] (stable key part)"""
    rd = oracle_html.Renderer(doc)
    acc = 0
    for b in doc.blocks:
        seg = rd.block(b)
        if pos <= acc + len(seg) + 1:
            k = b.kind
            if k == 'list':
                k = '%s-%s-list' % ('tight' if b.tight else 'loose', 'ordered' if b.ordered else 'bulleted')
            if k == 'codeblock':
                k = 'fenced-code' if b.fenced else 'indented-code'
            return k
        acc += len(seg) + 2
    return 'footnotes'


SPELLING_AXES = {
    'bullet': ['*', '+', '-'], 'lead': [0, 1, 2, 3], 'closing': [0, 1, 2, 5], 'setext': [False, True], 'eol': ['\n', '\r\n'], 'first_num': [1, 3, 7],
    'rule': ['***', '---', '* * *', '- - -', '___', '*****'], 'fence': [3, 4, 5], 'title_q': ['"', "'", '('], 'link_style': ['inline', 'ref', 'implicit'], 'emph': ['*', '_'],
    'trailing_blank': [1, 2], 'math': ['paren', 'dollar'],
}


def case_spelling(r, s, rng, doc, ext=EXT, mode='mmd'):
    base = G.DEFAULT
    ref, rq0 = html(s, r, G.serialize(doc, base).encode('utf-8'), ext)
    if ref is None:
        return
    for axis in rng.sample(sorted(SPELLING_AXES), 4):
        val = rng.choice(SPELLING_AXES[axis])
        sp = G.Spelling(random.Random(1), **{k: getattr(base, k) for k in SPELLING_AXES})
        setattr(sp, axis, val)
        src = G.serialize(doc, sp).encode('utf-8')
        out, rq = html(s, r, src, ext)
        r.stats['spelling_pairs_compared'] += 1
        r.sets['spelling_axes'].add('%s=%s' % (axis, str(val).replace('\n', 'LF').replace('\r', 'CR')))
        if out is not None and out.replace('\r\n', '\n').replace('\r', '\n') != ref:
            i, d = first_diff(ref, out)
            cls = diff_class(ref, out, i) or diff_class(out, ref, i)
            r.violate('spelling:%s' % cls if cls else 'spelling:%s=%s' % (axis, str(val).replace('\n', 'LF').replace('\r', 'CR')), 'spelling %s=%r renders differently from the default spelling (first difference at %d)' % (axis, val, i),
                      dict(requests=[rq0, rq]), d + '\nsource (variant): ' + core.show(src, 500))


def case_composition(r, s, rng):
    g = G.Gen(rng, sentinels=True, features=set(['emph', 'strong', 'code', 'esc', 'entity', 'codeblock', 'rule', 'heading', 'quote']))
    blocks = []
    for _ in range(rng.randint(2, 6)):
        b = g.block()
        if b.kind == 'quote':
            b = G.Quote([G.Para(g.inlines(maxn=2))])
        if b.kind == 'codeblock' and not b.fenced:
            b = G.CodeBlock(b.lines, None, True)        # adjacent indented blocks are one block by the syntax
        if b.kind == 'quote' and blocks and blocks[-1].kind == 'quote':
            blocks.append(G.Rule())
        blocks.append(b)
    parts = []
    for b in blocks:
        out, rq = html(s, r, G.serialize(G.Doc([b]), G.DEFAULT).encode('utf-8'))
        if out is None:
            return
        parts.append(out.rstrip('\n'))
    order = list(range(len(blocks)))
    rng.shuffle(order)
    src = G.serialize(G.Doc([blocks[i] for i in order]), G.DEFAULT).encode('utf-8')
    whole, rq = html(s, r, src)
    r.stats['compositions_compared'] += 1
    if whole is None:
        return
    exp = '\n\n'.join(parts[i] for i in order) + '\n'
    if whole != exp:
        i, d = first_diff(exp, whole)
        kinds = [blocks[j].kind for j in order]
        r.violate('composition:%s' % '+'.join(sorted(set(kinds))), 'a document of independent blocks %s does not render to the concatenation of its blocks (first difference at %d)' % (kinds, i),
                  dict(requests=[rq]), d + '\nsource: ' + core.show(src, 500))


def case_reference(r, s, rng, doc, mode='mmd', sp=None):
    ext, smart, compat, _ = MODES[mode]
    sp = sp or G.Spelling(rng, eol='\n')
    src = G.serialize(doc, sp).encode('utf-8')
    out, rq = html(s, r, src, ext)
    if out is None:
        return
    exp = oracle_html.render(doc, smart, compat)
    r.stats['reference_renderings_compared'] += 1
    r.stats['reference_renderings_' + mode] += 1
    if out.rstrip('\n') != exp.rstrip('\n'):
        i, d = first_diff(exp, out)
        r.violate('reference:%s%s' % ('' if mode == 'mmd' else mode + ':', diff_class(exp, out, i) or construct_at(doc, exp, i)),
                  'HTML (%s) differs from the reference rendering at byte %d' % (mode, i), dict(requests=[rq]), d + '\nsource: ' + core.show(src, 600))
    elif rng.random() < 0.2:
        # the same structure parsed once and exported twice through the public token-tree export: each export is the prescribed HTML again
        hist = []

        def eng(sub, args):
            q = D.req_to_json('asan', 'ENGINE', 0, ext, 0, 0 | (sub << 4), args)
            hist.append(q)
            rep = s.call('asan', *D.req_from_json(q), history=hist[:-1], crash_is_violation=False)
            r.evaluations += 1
            return rep
        if eng(0, [src]) is not None and eng(12, [b'']) is not None:
            alive = True
            for k in (1, 2):
                rep = eng(14, [b''])
                if rep is None:
                    alive = False
                    break
                if rep.status:
                    continue
                r.stats['tree_exports_compared'] += 1
                o2 = rep.out.decode('utf-8', 'replace')
                if o2.rstrip('\n') != exp.rstrip('\n'):
                    i, d = first_diff(exp, o2)
                    r.violate('reference:export-%d-of-one-tree:%s%s' % (k, '' if mode == 'mmd' else mode + ':', diff_class(exp, o2, i) or construct_at(doc, exp, i)),
                              'export %d of one parsed tree (%s) differs from the reference rendering at byte %d' % (k, mode, i), dict(requests=list(hist)), d + '\nsource: ' + core.show(src, 600))
                    break
            if alive:
                eng(9, [b''])
    return src


BLOCK_KINDS = ['para', 'heading', 'rule', 'fenced', 'indented', 'quote', 'tlist', 'llist', 'olist', 'table', 'deflist', 'figure']
CONTAINERS = ['quote', 'tight-item', 'loose-item', 'quote-in-item', 'item-in-quote']


def mk_block(g, kind):
    if kind == 'para':
        return G.Para(g.inlines(maxn=2))
    if kind == 'heading':
        return g.heading()
    if kind == 'rule':
        return G.Rule()
    if kind == 'fenced':
        return G.CodeBlock(['code %s();' % g.word('c'), '  x = a & b;'], g.r.choice([None, 'c']), True)
    if kind == 'indented':
        return G.CodeBlock(['code %s();' % g.word('c'), '  x < y'], None, False)
    if kind == 'quote':
        return G.Quote([G.Para(g.inlines(maxn=1))])
    if kind == 'tlist':
        return G.List(False, True, [[G.Para(g.inlines(maxn=1))] for _ in range(2)])
    if kind == 'llist':
        return G.List(False, False, [[G.Para(g.inlines(maxn=1))] for _ in range(2)])
    if kind == 'olist':
        return G.List(True, True, [[G.Para(g.inlines(maxn=1))] for _ in range(2)])
    if kind == 'table':
        return G.Table([[G.Text(g.words(1, 2))], [G.Text(g.words(1, 2))]], ['l', 'r'], [[[G.Text(g.words(1, 2))], [G.Text(g.words(1, 2))]]])
    if kind == 'deflist':
        return G.DefList([([G.Text(g.words(1, 2))], [[G.Text(g.words(1, 3))]])])
    if kind == 'figure':
        return G.Figure(g.words(1, 2, 'u'), '%s.png' % g.word('u'))
    raise ValueError(kind)


def case_pairs(r, s, rng):
    """every ordered pair of block kinds as siblings, and every (container, child) pair, each in a random spelling"""
    for mode in ('mmd', 'compat'):
        kinds = [k for k in BLOCK_KINDS if mode == 'mmd' or k not in ('fenced', 'table', 'deflist')]
        feats = MODES[mode][3]
        for a in kinds:
            for b in kinds:
                g = G.Gen(rng, sentinels=True, features=feats)
                doc = G.Doc(g.sanitize([mk_block(g, a), mk_block(g, b), G.Para(g.inlines(maxn=1))]), dict(g.foot))
                case_reference(r, s, rng, doc, mode)
                r.sets['sibling_pairs'].add('%s:%s+%s' % (mode, a, b))
        for c in CONTAINERS:
            for b in kinds:
                if b in ('heading', 'table', 'deflist', 'figure', 'indented'):
                    continue        # the generator keeps these at top level (their nested forms are not spelled out in the guide)
                g = G.Gen(rng, sentinels=True, features=feats)
                inner = mk_block(g, b)
                lead = G.Para(g.inlines(maxn=1))
                if c == 'quote':
                    blk = G.Quote(g.sanitize([lead, inner]))
                elif c == 'tight-item':
                    blk = G.List(False, inner.kind != 'para', [[lead, inner]])
                elif c == 'loose-item':
                    blk = G.List(True, False, [[lead, inner], [G.Para(g.inlines(maxn=1))]])
                elif c == 'quote-in-item':
                    blk = G.List(False, False, [[lead, G.Quote(g.sanitize([G.Para(g.inlines(maxn=1)), inner]))], [G.Para(g.inlines(maxn=1))]])
                else:
                    blk = G.Quote([G.List(False, False, [[lead, inner], [G.Para(g.inlines(maxn=1))]])])
                doc = G.Doc([blk, G.Para(g.inlines(maxn=1))], dict(g.foot))
                case_reference(r, s, rng, doc, mode)
                r.sets['container_pairs'].add('%s:%s>%s' % (mode, c, b))


def work(job):
    seed, lo, hi = job
    r = core.JobResult()
    with core.Session(r) as s:
        for i in range(lo, hi):
            rng = core.job_rng(seed, ID, i)
            mode = ('mmd', 'mmd+smart', 'compat', 'mmd')[i % 4]
            ext, smart, compat, feats = MODES[mode]
            g = G.Gen(rng, sentinels=True, features=feats)
            doc = g.doc()
            src = case_reference(r, s, rng, doc, mode)
            case_spelling(r, s, rng, doc, ext, mode)
            if i % 3 == 0:
                case_composition(r, s, rng)
            if i % 400 == 0:
                case_pairs(r, s, rng)
            kinds = set(b.kind for b in doc.blocks)
            for k in kinds:
                r.sets['block_kinds'].add(k)
            if src and len(doc.blocks) >= 2:
                r.distinct.add(core.h64(src))
            if i - lo < 1 and src:
                r.samples.append(dict(source=core.show(src, 300), expected_html=core.show(oracle_html.render(doc), 300)))
    return r


def main():
    chk = core.Check(ID)
    n = chk.scale(12000, 400000)
    chk.rule = ('abstract document i = f(VERIF_SEED, i): 1-8 blocks (paragraph, ATX/Setext heading, rule, fenced/indented code, block quote, tight/loose bulleted/numbered lists with '
                'nesting, table with alignment and caption, definition list) with inlines (emphasis, strong, code span, inline/reference/implicit link, image, hard break, backslash '
                'escape, entity, automatic link, math, super/subscript, footnote); per document: reference rendering in a random spelling, 4 single-axis spelling variants vs the '
                'default spelling (12 axes), and every third case a permutation of independent blocks vs the concatenation of their renderings; smart typography off; '
                'non-trivial = >= 2 blocks; distinct = distinct sources')
    chk.assumptions = ['the generator only emits unambiguous uses of the syntax; the reference renderer covers exactly those constructs',
                       'inter-block whitespace (one blank line) follows the writer\'s documented discipline']
    chunk = max(20, n // 64)
    chk.run_jobs(work, [(chk.seed, lo, min(n, lo + chunk)) for lo in range(0, n, chunk)])
    return chk.finish()
