"""C16 -- valid UTF-8 in, valid UTF-8 out.

Oracle: strict UTF-8 validation (no overlongs, no surrogates, <= U+10FFFF) of every textual output
(and of every text member of the packages).  Workload: valid UTF-8 documents in which code points
whose encodings contain the bytes the lexer / char tables treat specially sit immediately next to
every syntax character, in every syntactic position incl. end of input.
"""
import io, zipfile
from lib import core, slots, gen, drv as D

ID = 'C16'
TEXTUAL = ['html', 'latex', 'beamer', 'memoir', 'fodt', 'opml', 'mmd', 'htmlassets']
PACKS = ['epub', 'odt', 'bundlezip', 'itmz']

# code points chosen for their bytes: trailing 0xA0 (à Ġ ࠠ 🌠), U+00A0 itself (C2 A0), C2/C3 leads, bytes that are ASCII+0x80 of syntax
# characters (ª = C2 AA ~ '*'+0x80, Û = C3 9B ~ '['+0x80, ü = C3 BC ~ '<'+0x80 ...), 3- and 4-byte sequences, combining marks, BOM inside text
SPECIAL = ['à', 'Ġ', 'ࠠ', '\U0001F320', ' ', 'ª', 'Û', 'Ý', 'ü', 'þ', '£', 'é', 'É', 'İ', 'ı',
           '€', '’', '“', '—', '中', '文', '\U0001F600', '\U00010348', '́', '﻿', '­', ' ', 'ß', 'ẞ',
           '｜', '＊', '　', '·', '٠', 'א', 'ا', '\U000E0041']
SYNTAX = ['*', '_', '`', '[', ']', '(', ')', '#', '|', ':', '-', '.', "'", '"', '\\', '^', '~', '<', '>', '&', '{', '}', '=', '+', '!', '$', '%', '/', '@', ' ', '  ', '\t', '--', '...', "''", '``']


def payload(rng, kind):
    n = rng.randint(1, 6)
    out = ''
    for _ in range(n):
        r = rng.random()
        if r < 0.55:
            out += rng.choice(SPECIAL)
        elif r < 0.85:
            out += rng.choice(SYNTAX)
        else:
            out += rng.choice(['a', 'Z', '9', 'word'])
    if kind in ('link-url', 'autolink', 'email', 'meta-key', 'meta-css', 'manual-label', 'link-attr', 'fenced-lang', 'superscript', 'subscript'):
        out = out.replace(' ', '').replace('\t', '')
    # no raw line breaks inside a payload: positions are chosen by the templates
    return out.replace('\n', '').replace('\r', '')


def lead_payload(rng, kind):
    # U+00A0 is in the lexer's and scanners' whitespace classes (as the two bytes C2 A0): half of the cases
    c = '\u00a0' if rng.random() < 0.5 else rng.choice(SPECIAL)
    k = rng.random()
    if k < 0.5:
        return c * rng.randint(1, 4)
    if k < 0.8:
        return c + rng.choice(SPECIAL)
    return rng.choice([' ', '  ', '\t']) + c * rng.randint(1, 2)


def strict_utf8(b):
    try:
        b.decode('utf-8', 'strict')
        return None
    except UnicodeDecodeError as e:
        return e.start


def classify(out, pos, sl):
    """which slot (kind) contains the invalid byte: between its sentinels, else nearest preceding sentinel"""
    best = None
    for s in sl:
        a = out.find(s['a'].encode())
        b = out.find(s['b'].encode(), a + 1) if a >= 0 else -1
        if a >= 0 and a <= pos and (b < 0 or pos <= b + len(s['b'])):
            if best is None or a > best[0]:
                best = (a, s['kind'])
    return best[1] if best else 'outside-slots'


def work(job):
    seed, lo, hi = job
    r = core.JobResult()
    with core.Session(r) as s:
        for i in range(lo, hi):
            rng = core.job_rng(seed, ID, i)
            if rng.random() < 0.06:
                # the document ends inside a metadata value / heading / paragraph, without a final line break, on a byte-special character
                tail = lead_payload(rng, 'eof')
                text = rng.choice(['Title: x\nAuthor: J\u00fcrgen zz%s', 'Title: zz%s', 'k: v\nLast Key: zz\u20ac%s', '# Head zz%s', 'para\n\nlast line zz%s', '* item zz%s', '[^n]: note zz%s',
                                   '| a | zz%s', 'term\n: def zz%s', '> quote zz%s', '```\ncode zz%s', 'Title: t\n\n[link]: http://example.com/zz%s',
                                   # raw-source fences left open at the end of input, indented inside containers (the writers copy a byte range of the source)
                                   '* item\n\n    ```{=html}\n    <b>zz%s', '* item\n\n    ```{=latex}\n    \\x zz%s', '> ```{=*}\n> zz%s', '1. i\n\n    ```{=odt}\n    zz%s',
                                   '* a\n\n    * b\n\n        ```{=*}\n        zz%s', '```{=*}\nzz%s']) % tail
                sl = []
                r.stats['eof_documents'] += 1
            elif rng.random() < 0.05:
                # attribute values of links and images (dimensions are unit-corrected and case-mapped by the LaTeX and OpenDocument writers)
                def dim():
                    return rng.choice(['12', '3 ', '', '0.5']) + rng.choice(SPECIAL) + rng.choice(['m', 'PX', 'Cm', '', rng.choice(SPECIAL)]) + rng.choice(['', rng.choice(SPECIAL)])
                form = rng.random()
                if form < 0.4:
                    text = 'Before ![alt zz](pic.png "t" width="%s" height="%s") after.\n' % (dim(), dim())
                elif form < 0.7:
                    text = '![fig zz][f]\n\nAfter.\n\n[f]: img.png width="%s" height="%s"\n' % (dim(), dim())
                elif form < 0.85:
                    text = '![fig zz](img.png width=%s)\n' % dim().replace(' ', '')
                else:
                    text = 'A [link zz](http://example.com/ "t" class="%s" width="%s") here.\n' % (dim(), dim())
                sl = []
                r.stats['attribute_value_documents'] += 1
            elif rng.random() < 0.3:
                # byte-special characters alone, right after a block marker or right before the line end (where stripping code cuts by bytes)
                text, sl = slots.build(rng, lead_payload, kinds=slots.LEADING_KINDS, nslots=rng.randint(3, 6), eol=rng.choice(['\n', '\n', '\r\n']))
                r.stats['leading_position_documents'] += 1
            else:
                text, sl = slots.build(rng, payload, eol=rng.choice(['\n', '\n', '\r\n']))
            src = text.encode('utf-8')
            ext = rng.choice([D.EXT_CLI, D.EXT_CLI, D.EXT_CLI & ~D.EXT['SMART'], D.EXT_CLI_COMPAT, D.EXT_CLI | D.EXT['COMPLETE'], D.EXT_CLI | D.EXT['SNIPPET'],
                              D.EXT_CLI | D.EXT['OBFUSCATE'], D.EXT_CLI | D.EXT['CRITIC_ACCEPT'], D.EXT_CLI | D.EXT['CRITIC_REJECT'], D.EXT_CLI | D.EXT['NO_LABELS'],
                              D.EXT_CLI | D.EXT['PROCESS_HTML'], D.EXT_CLI | D.EXT['RANDOM_LABELS']])
            lang = rng.choice(gen.LANGS)
            fmts = list(TEXTUAL) + ([rng.choice(PACKS)] if i % 4 == 0 else [])
            for fname in fmts:
                fmt = D.FMT[fname]
                rq = D.req_to_json('asan', 'CONVERT', fmt, ext, lang, 1 | (1 << 4), [src])
                rep = s.call('asan', 'CONVERT', fmt, ext, lang, 1 | (1 << 4), [src], crash_is_violation=False)
                r.evaluations += 1
                if rep is None or rep.status:
                    r.stats['crashed/exited (C01/C02 territory)'] += 1
                    continue
                outs = [(fname, rep.out)]
                if fname in PACKS:
                    try:
                        z = zipfile.ZipFile(io.BytesIO(rep.out))
                        outs = [('%s:%s' % (fname, n.split('/')[-1] if not n.startswith('assets') else 'asset'), z.read(n)) for n in z.namelist()
                                if n.endswith(('.xml', '.xhtml', '.opf', '.html', '.json', '.markdown', '.txt', 'mimetype', '.css'))]
                    except Exception:
                        r.stats['package unreadable (C09 territory)'] += 1
                        continue
                if fname in ('opml', 'itmz') and i % 5 == 0 and strict_utf8(rep.out if fname == 'opml' else b'') is None:
                    # the way back: the outline just written is read again (--opml / --itmz) and rendered; entities and character
                    # references in it are decoded next to multi-byte characters
                    back = D.EXT['PARSE_OPML'] if fname == 'opml' else D.EXT['PARSE_ITMZ']
                    for f2 in ('mmd', 'html', 'latex', 'fodt', 'opml'):
                        e2 = (ext | back) & ~D.EXT['TRANSCLUDE']
                        rq2 = D.req_to_json('asan', 'CONVERT', D.FMT[f2], e2, lang, 1 | (1 << 4), [rep.out])
                        rep2 = s.call('asan', 'CONVERT', D.FMT[f2], e2, lang, 1 | (1 << 4), [rep.out], crash_is_violation=False)
                        r.evaluations += 1
                        if rep2 is None or rep2.status:
                            continue
                        outs.append(('%s:after-%s-import' % (f2, fname), rep2.out))
                        r.stats['outputs_after_import_validated'] += 1
                for name, data in outs:
                    r.stats['outputs_validated'] += 1
                    r.stats['bytes_validated'] += len(data)
                    pos = strict_utf8(data)
                    if pos is not None:
                        kind = classify(data, pos, sl)
                        r.violate('invalid-utf8:%s:%s' % (name.split(':')[0] if ':' not in name else name, kind),
                                  'output %s is not valid UTF-8 at byte %d (slot kind %s)' % (name, pos, kind),
                                  dict(requests=[rq]), 'around: %r\nsource: %s' % (data[max(0, pos - 30):pos + 12], core.show(src, 500)))
            r.distinct.add(core.h64(src, ext, lang))
            for x in sl:
                r.sets['slot_kinds'].add(x['kind'])
            if i - lo < 1:
                r.samples.append(dict(source=core.show(src, 300), ext=hex(ext), lang=lang))
    return r


def main():
    chk = core.Check(ID)
    n = chk.scale(12000, 400000)
    chk.rule = ('document i = f(VERIF_SEED, i): 3-10 slots drawn from %d syntactic positions (body, headings, lists, tables, links, titles, URLs, labels, notes, code, math, '
                'CriticMarkup, raw HTML, metadata keys/values, line ends, end of input) each filled with 1-6 items mixing %d special code points with every syntax character; '
                'x 8 textual formats (+1 package every 4th) x smart/compat/complete/snippet/obfuscate/critic variants x 7 languages; every output validated; '
                'distinct = distinct (source, ext, lang); all are non-trivial (>= 3 hostile slots)' % (len(slots.ALL_KINDS), len(SPECIAL)))
    chk.rule = chk.rule + ' ; plus: image / link attribute values, the OPML / ITMZ outline just written read back and rendered to five formats, raw-source fences left open at end of input inside containers'
    chk.assumptions = ['inputs are valid UTF-8 by construction']
    chunk = max(20, n // 64)
    chk.run_jobs(work, [(chk.seed, lo, min(n, lo + chunk)) for lo in range(0, n, chunk)])
    return chk.finish()
