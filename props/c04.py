"""C04 -- all output formats carry the same text, escaped for the target.

Three oracles over sentinel documents, per format (html, latex, beamer, memoir, fodt, opml):
 1. conservation: body words each exactly once and in source order (notes may relocate as a block);
 2. escaping: a reserved character placed -- literally by the syntax -- between two sentinels in a
    given position appears between them only in a form the target format allows;
 3. nesting: HTML tag stack, LaTeX environment stack and brace balance, expat for FODT/OPML.
"""
import re
from html.parser import HTMLParser
import xml.parsers.expat as expat
from lib import core, gen, gendoc, slots, drv as D

ID = 'C04'
FORMATS = ['html', 'latex', 'beamer', 'memoir', 'fodt', 'opml']
EXT = (D.EXT_CLI & ~D.EXT['SMART'])          # smart typography deliberately rewrites quotes/dashes: C03's business

# characters reserved somewhere, each with the spelling that keeps it literal by the syntax in running text
LITERAL = {
    '&': ' & ', '<': ' < ', '>': ' > ', '"': ' " ', "'": " ' ", '\\': ' \\\\ ', '{': ' { ', '}': ' } ', '$': ' $ ', '%': ' % ', '#': ' # ',
    '_': ' _ ', '^': ' ^ ', '~': ' ~ ', '*': ' * ', '[': ' \\[ ', ']': ' \\] ', '(': ' ( ', ')': ' ) ', '/': ' / ', '`': ' \\` ', 'é': ' é ', '中': ' 中 ', '\U0001F600': ' \U0001F600 ',
    '=': ' = ', '+': ' + ', '!': ' ! ', '@': ' @ ', ';': ' ; ', ',': ' , ', '?': ' ? ',
    # sequences that look like the beginning or end of markup but are plain text on their own (smart typography is off here)
    '<!--': ' <!-- ', '-->': ' --> ', ']]>': ' \\]\\]> ', '&#': ' &# ', '<!': ' <! ', '</': ' </ ', '<?': ' <? ', '--': ' -- ', '...': ' ... ', '~>': ' ~> ', '<<': ' << ', '>>': ' >> ', '{=': ' {= ', '=}': ' =} ',
}
TEXT_SLOTS = ['paragraph', 'atx-heading', 'atx-closed', 'setext-heading', 'bullet-item', 'enum-item', 'loose-item', 'quote', 'table-cell', 'table-head', 'definition', 'term',
              'link-text', 'inline-footnote', 'ref-footnote', 'emphasis', 'strong', 'meta-title', 'meta-custom']
VERBATIM_SLOTS = ['code-span', 'fenced-code', 'indented-code', 'math-inline', 'math-display']
ATTR_SLOTS = ['link-title', 'image-alt', 'image-title', 'ref-title']

HTML_OK = re.compile(r'^(?:[^&<"]|&(?:amp|lt|gt|quot|apos|#\d+|#x[0-9a-fA-F]+);)*$')
HTML_TEXT_OK = re.compile(r'^(?:[^&<]|&(?:amp|lt|gt|quot|apos|#\d+|#x[0-9a-fA-F]+);)*$')
LATEX_ESC = r'(?<=-)\{\}(?=-)|\\textbackslash\{\}|\\ensuremath\{\\sim\}|\\slash\{\}|\\\^\{\}|\$<\$|\$>\$|\\textbar\{\}|\\[#{}$%&_]'
LATEX_OK = re.compile(r'^(?:[^\\{}$%&#_^~]|' + LATEX_ESC + r')*$')


def unescape_xml(s):
    return re.sub(r'&(amp|lt|gt|quot|apos|#\d+|#x[0-9a-fA-F]+);', lambda m: {'amp': '&', 'lt': '<', 'gt': '>', 'quot': '"', 'apos': "'"}.get(m.group(1)) or
                  (chr(int(m.group(1)[2:], 16)) if m.group(1).startswith('#x') else chr(int(m.group(1)[1:]))), s)


def unescape_latex(s):
    s = s.replace('\\textbackslash{}', '\x00BS').replace('\\ensuremath{\\sim}', '~').replace('\\slash{}', '/').replace('\\^{}', '^').replace('$<$', '<').replace('$>$', '>').replace('\\textbar{}', '|')
    s = re.sub(r'\\([#{}$%&_])', r'\1', s)
    return s.replace('\x00BS', '\\')


def between(out, a, b):
    i = out.find(a)
    if i < 0:
        return None
    j = out.find(b, i + len(a))
    if j < 0:
        return None
    return out[i + len(a):j]


class TagStack(HTMLParser):
    VOID = {'br', 'hr', 'img', 'meta', 'link', 'col', 'input'}

    def __init__(self):
        HTMLParser.__init__(self, convert_charrefs=False)
        self.stack, self.err = [], None

    def handle_starttag(self, tag, attrs):
        if tag not in self.VOID:
            self.stack.append(tag)

    def handle_startendtag(self, tag, attrs):
        pass

    def handle_endtag(self, tag):
        if self.err:
            return
        if tag in self.VOID:
            return
        if not self.stack or self.stack[-1] != tag:
            self.err = 'closing </%s> but open is %s' % (tag, self.stack[-3:])
        else:
            self.stack.pop()


def check_nesting(fname, out):
    if fname == 'html':
        p = TagStack()
        try:
            p.feed(out)
            p.close()
        except Exception as e:
            return 'html parser: %s' % e
        if p.err:
            return p.err
        if p.stack:
            return 'left open: %s' % p.stack[-3:]
        return None
    if fname in ('latex', 'beamer', 'memoir'):
        stack = []
        # verbatim-like environments hold raw text
        text = re.sub(r'\\begin\{(verbatim|lstlisting)\}.*?\\end\{\1\}', '', out, flags=re.S)
        text = re.sub(r'\\begin\{adjustwidth\}.*?\\end\{adjustwidth\}', '', text, flags=re.S)
        for m in re.finditer(r'\\(begin|end)\{([^}]*)\}', text):
            if m.group(2) == 'document':
                continue            # \\begin{document} lives in the \\input'ed leader file
            if m.group(1) == 'begin':
                stack.append(m.group(2))
            else:
                if not stack or stack[-1] != m.group(2):
                    return '\\end{%s} but open is %s' % (m.group(2), stack[-3:])
                stack.pop()
        if stack:
            return 'environment left open: %s' % stack[-3:]
        t2 = re.sub(r'\\verb(.).*?\1', '', text)
        # math is the author's TeX, copied verbatim
        t2 = re.sub(r'\\\(.*?\\\)|\\\[.*?\\\]|\$\$.*?\$\$|(?<!\\)\$[^$\n]*\$', '', t2, flags=re.S)
        t2 = re.sub(r'\\[{}]', '', t2.replace('\\\\', ''))
        depth = 0
        for ch in t2:
            if ch == '{':
                depth += 1
            elif ch == '}':
                depth -= 1
                if depth < 0:
                    return 'unbalanced }'
        if depth:
            return '%d unclosed {' % depth
        return None
    p = expat.ParserCreate()
    try:
        p.Parse(out.encode('utf-8'), True)
    except expat.ExpatError as e:
        return 'xml: %s' % expat.ErrorString(e.code)
    return None


def seqkey(p):
    """key suffix naming a multi-character payload (a marker-like sequence), nothing for single characters"""
    q = p.replace('\\', '').strip()
    return (':seq:' + q) if len(q) > 1 and not q.isalnum() and q in ('<!--', '-->', ']]>', '&#', '<!', '</', '<?', '--', '...', '~>', '<<', '>>', '{=', '=}') else ''


def escaping_case(r, s, rng, i):
    chars = list(LITERAL)
    picks = {}

    def payload(rng_, kind):
        c = rng_.choice(chars)
        picks[len(picks)] = c
        if kind in VERBATIM_SLOTS:
            raw = {'`': "'"}.get(c, c)
            if (kind.startswith('math') and c in '$\\') or (kind == 'indented-code' and c == '\\'):
                raw = 'x'         # '\\ ' after a definition line is an escaped space of the continued paragraph, not code
            return raw
        if kind in ATTR_SLOTS:
            m = {'"': "'", '\\': '\\\\', '[': '\\[', ']': '\\]', '`': '\\`', '(': 'x', ')': 'x'}
            return ''.join(m.get(ch, ch) for ch in c)
        return LITERAL[c].strip()
    kinds = TEXT_SLOTS + VERBATIM_SLOTS + ATTR_SLOTS
    text, sl = slots.build(rng, payload, kinds=kinds, nslots=rng.randint(3, 8))
    src = text.encode('utf-8')
    for fname in FORMATS:
        fmt = D.FMT[fname]
        ext = EXT | (D.EXT['COMPLETE'] if any(x['kind'].startswith('meta-') for x in sl) else 0)
        rq = D.req_to_json('asan', 'CONVERT', fmt, ext, 0, 1 | (1 << 4), [src])
        rep = s.call('asan', 'CONVERT', fmt, ext, 0, 1 | (1 << 4), [src], crash_is_violation=False)
        r.evaluations += 1
        if rep is None or rep.status:
            continue
        out = rep.out.decode('utf-8', 'replace')
        case = dict(requests=[rq])
        for x in sl:
            kind, p = x['kind'], x['payload']
            seg = between(out, x['a'], x['b'])
            if seg is None:
                if fname in ('latex', 'beamer', 'memoir', 'fodt') and kind.startswith('meta-'):
                    continue
                if kind in ('image-alt', 'image-title', 'link-title', 'ref-title') and fname != 'html':
                    continue        # attribute-like texts are not carried by every format
                if kind.startswith('meta-') and fname == 'opml':
                    continue
                r.violate('lost:%s:%s' % (fname, kind), 'text of a %s slot is missing from the %s output' % (kind, fname), case, core.show(src, 500))
                continue
            r.stats['slot_renderings_checked'] += 1
            seg_s = seg.strip()
            where = 'verbatim' if kind in VERBATIM_SLOTS else ('attr' if kind in ATTR_SLOTS else 'text')
            if fname in ('html', 'fodt', 'opml'):
                ok = (HTML_OK if (where == 'attr' or fname == 'opml') else HTML_TEXT_OK).match(strip_markup(seg_s, fname))
                if not ok:
                    r.violate('unescaped:%s:%s:%s%s' % (fname, where, kind if where != 'text' else 'text', seqkey(p) if where != 'attr' else ''), 'reserved character %r from a %s slot reaches %s unescaped: %r' % (p, kind, fname, seg_s[:60]), case, core.show(src, 500))
                    continue
                if where == 'verbatim' and fname == 'html':
                    back = unescape_xml(strip_markup(seg_s, fname)).strip()
                    exp = p.replace('\\\\', '\\\\') if False else p
                    if kind.startswith('math'):
                        exp = p
                    if back != exp.strip() and back.replace(' ', '') != exp.strip().replace(' ', ''):
                        r.violate('verbatim-altered:%s:%s' % (fname, kind), 'verbatim %s slot holds %r, source has %r' % (kind, back, exp), case, core.show(src, 500))
            else:
                if where == 'verbatim' and kind != 'code-span':
                    continue        # verbatim environments and math carry raw text in LaTeX; a code span is \texttt{...} and needs escaping
                body = strip_markup(seg_s, fname)
                if not LATEX_OK.match(body):
                    r.violate('unescaped:%s:%s:%s%s' % (fname, where, kind if where != 'text' else 'text', seqkey(p)), 'reserved character %r from a %s slot reaches %s unescaped: %r' % (p, kind, fname, seg_s[:60]), case, core.show(src, 500))
        err = check_nesting(fname, out)
        r.stats['nesting_checked'] += 1
        if err:
            r.violate('nesting:%s' % fname, '%s markup is not properly nested: %s' % (fname, err), case, core.show(src, 500))
    r.distinct.add(core.h64(src))
    for x in sl:
        r.sets['slot_kinds'].add(x['kind'])
    for c in picks.values():
        r.sets['characters'].add(c)
    if i % 997 == 0:
        r.samples.append(dict(kind='escaping', source=core.show(src, 300)))


def strip_markup(seg, fname):
    """remove the writer's own inline markup from a between-sentinels segment (the payload itself never contains markup)"""
    if fname in ('html', 'fodt', 'opml'):
        return seg
    return seg


WORD = re.compile(r'(?<![A-Za-z0-9])w\d+(?![A-Za-z0-9])')
FWORD = re.compile(r'(?<![A-Za-z0-9])f\d+(?![A-Za-z0-9])')


def conservation_case(r, s, rng, i):
    g = gendoc.Gen(rng, sentinels=True, features=set(['emph', 'strong', 'code', 'link', 'esc', 'entity', 'break', 'quote', 'list', 'codeblock', 'rule', 'heading', 'table', 'deflist',
                                                       'footnote', 'nested-footnote', 'math', 'supsub']))
    doc = g.doc()
    sp = gendoc.Spelling(rng, eol='\n')
    text = gendoc.serialize(doc, sp)
    if i % 10 == 7:
        # headings pushed beyond the deepest level a format has a command for (rendering-control metadata: the output stays a snippet)
        text = 'Base Header Level: %d\n\n' % rng.choice([2, 3, 4, 6, 8]) + '###### deepest w0\n\nfirst w00\n\n' + text
    if i % 10 == 3:
        # a bracket followed by more text on the line after a table is a paragraph, not a caption: all of it is rendered, after the table
        text = '| w01 | w02 |\n|---|---|\n| w03 | w04 |\n[Cap w05] trailing w06\n\n' + text
    src = text.encode('utf-8')
    # footnote definitions sit at the end of the source: body order = order of w-words before them
    m_defs = re.search(r'\n\[[^\]\n]*\]: ', text)
    body_part = text[:m_defs.start()] if m_defs else text
    want_body = WORD.findall(body_part)
    want = want_body
    fwant = set(FWORD.findall(text))
    runs = [(fname, None) for fname in FORMATS]
    if i % 12 == 1:
        # one parsed tree exported several times through the public token-tree export: every export carries the whole text again
        runs += [('html', 1), ('latex', 2), ('html', 3), ('latex', 4)]
    hist = []
    for fname, nth in runs:
        fmt = D.FMT[fname]
        if nth is None:
            rq = D.req_to_json('asan', 'CONVERT', fmt, EXT, 0, 1 | (1 << 4), [src])
            rep = s.call('asan', 'CONVERT', fmt, EXT, 0, 1 | (1 << 4), [src], crash_is_violation=False)
        else:
            if nth == 1:
                for sub, args in ((0, [src]), (12, [b''])):
                    hist.append(D.req_to_json('asan', 'ENGINE', 0, EXT, 0, 0 | (sub << 4), args))
                    if s.call('asan', *D.req_from_json(hist[-1]), history=hist[:-1], crash_is_violation=False) is None:
                        hist = None
                        break
            if hist is None:
                break
            rq = D.req_to_json('asan', 'ENGINE', fmt, EXT, 0, 0 | (14 << 4), [b''])
            hist.append(rq)
            # (a plain conversion of this document has just succeeded in this format: a crash here is about the repeated export)
            rep = s.call('asan', *D.req_from_json(rq), history=hist[:-1], crash_is_violation=True, key_suffix=':export-%d-of-one-tree' % nth, what='[export %d of one parsed tree, %s]' % (nth, fname))
            if rep is None:
                hist = None
                break
            r.stats['exports_of_one_tree_checked'] += 1
        r.evaluations += 1
        if rep is None or rep.status:
            continue
        out = rep.out.decode('utf-8', 'replace')
        if fname == 'fodt':
            m = re.search(r'<office:text>(.*)</office:text>', out, re.S)
            out_b = m.group(1) if m else out
        else:
            out_b = out
        got = WORD.findall(out_b)
        case = dict(requests=[rq] if nth is None else list(hist))
        tagx = '' if nth is None else ':export-%d-of-one-tree' % nth
        want = want_body if fname != 'opml' else WORD.findall(text)        # OPML stores the whole source, reference definitions included
        r.stats['documents_x_formats_compared'] += 1
        r.stats['body_words_tracked'] += len(want)
        if got != want:
            k = 0
            while k < min(len(got), len(want)) and got[k] == want[k]:
                k += 1
            missing = [w for w in want if w not in got]
            dup = [w for w in set(got) if got.count(w) > want.count(w)]
            cls = 'lost' if missing else ('repeated' if dup else 'reordered')
            # name the construct that holds the first offending word
            wbad = (missing or dup or [want[k] if k < len(want) else got[k]])[0]
            ctx = construct_of(text, wbad)
            r.violate('conservation:%s:%s:%s%s' % (fname, cls, ctx, tagx), '%s output: body word %s %s (first divergence at word %d)' % (fname, wbad, cls, k), case,
                      'expected …%s\ngot      …%s\nsource: %s' % (' '.join(want[max(0, k - 3):k + 5]), ' '.join(got[max(0, k - 3):k + 5]), core.show(src, 600)))
        for fw in fwant:
            n = len(re.findall(r'(?<![A-Za-z0-9])%s(?![A-Za-z0-9])' % fw, out_b))
            if n == 0:
                r.violate('conservation:%s:note-lost%s' % (fname, tagx), '%s output: footnote word %s is missing' % (fname, fw), case, core.show(src, 600))
                break
        err = check_nesting(fname, out)
        r.stats['nesting_checked'] += 1
        if err:
            r.violate('nesting:%s' % fname, '%s markup is not properly nested: %s' % (fname, err), case, core.show(src, 600))
    if hist:
        s.call('asan', 'ENGINE', 0, 0, 0, 0 | (9 << 4), [b''], crash_is_violation=False)
    if len(want) >= 5:
        r.distinct.add(core.h64(src))
    if i % 997 == 1:
        r.samples.append(dict(kind='conservation', source=core.show(src, 300), body_words=len(want)))


def construct_of(text, word):
    """which syntactic construct holds `word` in the source (stable key part)"""
    for ln in text.split('\n'):
        if re.search(r'(?<![A-Za-z0-9])%s(?![A-Za-z0-9])' % word, ln):
            l = ln.lstrip('> ')
            if l.startswith('|'):
                return 'table'
            if l.startswith(':'):
                return 'definition'
            if re.match(r'^([*+-]|\d+\.) ', l):
                return 'list-item'
            if ln.startswith('>'):
                return 'quote'
            if re.search(r'\*\*[^*]*%s' % word, ln) or re.search(r'__[^_]*%s' % word, ln):
                return 'strong'
            if re.search(r'[*_][^*_]*%s' % word, ln):
                return 'emph'
            if '[' in ln and re.search(r'\[[^\]]*%s' % word, ln):
                return 'link-text'
            if re.search(r'[\^~]%s' % word, ln):
                return 'supsub'
            return 'paragraph'
    return 'unknown'


ADDR_LOCAL = 'abcXYZ019-+_./!%~$'
ADDR_DOMAIN = list('abcxyzQ0189-._') + ['&', '%', '$', '#', '~', '^', '{', '}', "'", '=', '+', '!', ';', ',', '?', '*', 'é', 'ä', '中', 'ß', '\U0001F600', 'ñ']


def letters(t):
    return ''.join(ch for ch in t if ch.isalnum() or ord(ch) > 127)


def address_case(r, s, rng, i):
    """<address@domain> and <scheme://...> autolinks: the address is document text -- shown once as the link text, reserved characters escaped,
    characters outside ASCII carried as themselves (or as a character reference that decodes to them)"""
    items = []
    for k in range(rng.randint(1, 4)):
        if rng.random() < 0.6:
            a = ''.join(rng.choice(ADDR_LOCAL) for _ in range(rng.randint(1, 8))) + '@' + 'd' + ''.join(rng.choice(ADDR_DOMAIN) for _ in range(rng.randint(1, 12))) + rng.choice(['.com', '.org', '.de', ''])
            items.append(('email', a))
        else:
            a = rng.choice(['http', 'https', 'ftp', 'x-app']) + '://h' + ''.join(rng.choice(ADDR_DOMAIN + ['/', '/', ':', '@']) for _ in range(rng.randint(1, 16)))
            items.append(('url', a))
    text = '\n\n'.join('qa%dq <%s> qb%dq' % (k, a, k) if rng.random() < 0.7 else '* item\n\n    qa%dq <%s> qb%dq' % (k, a, k) for k, (kind, a) in enumerate(items)) + '\n'
    src = text.encode('utf-8')
    for fname in ('html', 'latex', 'beamer', 'memoir', 'fodt'):
        fmt = D.FMT[fname]
        rq = D.req_to_json('asan', 'CONVERT', fmt, EXT, 0, 1 | (1 << 4), [src])
        rep = s.call('asan', 'CONVERT', fmt, EXT, 0, 1 | (1 << 4), [src], crash_is_violation=False)
        r.evaluations += 1
        if rep is None or rep.status:
            continue
        out = rep.out.decode('utf-8', 'replace')
        case = dict(requests=[rq])
        for k, (kind, a) in enumerate(items):
            seg = between(out, 'qa%dq' % k, 'qb%dq' % k)
            if seg is None:
                r.violate('lost:%s:%s' % (fname, kind), 'the text around a %s autolink is missing from the %s output' % (kind, fname), case, core.show(src, 400))
                continue
            seg = seg.strip()
            if fname in ('html', 'fodt'):
                m = re.match(r'^<a href="([^"]*)">(.*)</a>$' if fname == 'html' else r'^<text:a xlink:type="simple" xlink:href="([^"]*)">(.*)</text:a>$', seg, re.S)
                if not m:
                    if seg.startswith('&lt;'):
                        r.stats['address not recognised as an autolink (plain text, may hold markup)'] += 1
                        continue
                    r.violate('address-markup:%s:%s' % (fname, kind), '%s renders the %s autolink %r as %r' % (fname, kind, a, seg[:160]), case, core.show(src, 400))
                    continue
                href, txt = m.group(1), m.group(2)
                r.stats['autolinks_checked'] += 1
                if not HTML_OK.match(href) or not HTML_TEXT_OK.match(txt):
                    r.violate('unescaped:%s:address:%s' % (fname, kind), 'reserved character of the %s autolink %r reaches %s unescaped: %r' % (kind, a, fname, seg[:160]), case, core.show(src, 400))
                    continue
                try:
                    shown, target = unescape_xml(txt), unescape_xml(href)
                except (ValueError, OverflowError):
                    shown = target = None
                if shown != a:
                    r.violate('address-text-altered:%s:%s' % (fname, kind), 'link text of the %s autolink %r decodes to %r in %s' % (kind, a, shown, fname), case, seg[:300] + '\n' + core.show(src, 400))
                elif target != (('mailto:' + a) if kind == 'email' else a):
                    r.violate('address-target-altered:%s:%s' % (fname, kind), 'target of the %s autolink %r decodes to %r in %s' % (kind, a, target, fname), case, seg[:300] + '\n' + core.show(src, 400))
            else:
                m = re.match(r'^\\href\{((?:[^{}\\]|\\.)*)\}\{(.*)\}$', seg, re.S)
                if not m:
                    if seg.startswith('\\href{'):
                        r.violate('address-markup:%s:%s' % (fname, kind), '%s renders the %s autolink %r as %r: the first argument of \\href holds a bare brace' % (fname, kind, a, seg[:160]), case, core.show(src, 400))
                    else:
                        r.stats['address not recognised as an autolink (plain text, may hold markup)'] += 1
                    continue
                txt = m.group(2)
                r.stats['autolinks_checked'] += 1
                if not LATEX_OK.match(txt):
                    r.violate('unescaped:%s:address:%s' % (fname, kind), 'reserved character of the %s autolink %r reaches %s unescaped: %r' % (kind, a, fname, txt[:160]), case, core.show(src, 400))
                elif letters(unescape_latex(txt)) != letters(a):
                    r.violate('address-text-altered:%s:%s' % (fname, kind), 'link text of the %s autolink %r reads %r in %s' % (kind, a, txt[:160], fname), case, core.show(src, 400))
        err = check_nesting(fname, out)
        if err:
            r.violate('nesting:%s' % fname, '%s markup is not properly nested: %s' % (fname, err), case, core.show(src, 400))
    r.distinct.add(core.h64(src))
    r.sets['slot_kinds'].add('autolink-address')


FIG_ALTS = ['Q', 'Z', '7', 'QZ', 'Q7Z', 'Q Z', 'é', '中', '%', '&', '#', '_', 'Q%', '&Z', 'ZQZQ']


def figure_case(r, s, rng, i):
    """a figure (an image alone in its paragraph) with a very short alternative text: the text is the caption in every format"""
    alt = rng.choice(FIG_ALTS)
    title = rng.choice(['', '', ' "T7"', ' "50% & more_x"', ' "a#b $5 {c}"'])
    locator = rng.choice(['p. 5', 'p. 5 & 6_7%', '$5 #3', 'a{b}c', 'x^2 ~y'])
    # an image alone in its paragraph is a figure; alone in a table cell or as a definition term it has no paragraph of its own
    form = rng.choice(['![%s](img.png%s)', '![%s][f1]\n\n[f1]: img.png%s', '![%s](img.png%s)', '|h|\n|---|\n|![%s](img.png%s)|', '![%s](img.png%s)\n: definition w9', '* ![%s](img.png%s)\n* two'])
    text = 'qa0q\n\n' + form % (alt, title) + '\n\nqb0q\n\nlast w8 qc0q [%s][#foo] qd0q.\n\n[#foo]: Author. *Title*.\n' % locator
    src = text.encode('utf-8')
    esc = {'html': {'&': '&amp;'}, 'fodt': {'&': '&amp;'}, 'latex': {'%': '\\%', '&': '\\&', '#': '\\#', '_': '\\_'}}
    esc['beamer'] = esc['memoir'] = esc['latex']
    for fname in ('html', 'latex', 'beamer', 'memoir', 'fodt'):
        fmt = D.FMT[fname]
        rq = D.req_to_json('asan', 'CONVERT', fmt, EXT, 0, 1 | (1 << 4), [src])
        rep = s.call('asan', 'CONVERT', fmt, EXT, 0, 1 | (1 << 4), [src], crash_is_violation=False)
        r.evaluations += 1
        if rep is None or rep.status:
            continue
        out = rep.out.decode('utf-8', 'replace')
        seg = between(out, 'qa0q', 'qb0q')
        r.stats['figure_captions_checked'] += 1
        want = ''.join(esc[fname].get(ch, ch) for ch in alt)
        is_fig = not ('|h|' in text or ': definition' in text or '* two' in text)          # only a figure shows its alternative text as a caption
        if is_fig and (seg is None or want not in seg.replace('img.png', '')):
            r.violate('lost:%s:figure-caption' % fname, 'the alternative text %r of a figure is missing from the %s output' % (alt, fname), dict(requests=[rq]), (seg or '')[:400] + '\nsource: ' + core.show(src, 200))
        # the title of a figure and the locator of a citation are document text wherever a format carries them
        if fname in ('latex', 'beamer', 'memoir'):
            for what, pat, where in (('figure-title', r'\\caption\[(.*?)\]\{', seg or ''), ('citation-locator', r'\\cite[pt]\[(.*?)\]\{', between(out, 'qc0q', 'qd0q') or '')):
                m = re.search(pat, where, re.S)
                if m:
                    r.stats['latex_optional_arguments_checked'] += 1
                    if not LATEX_OK.match(m.group(1)):
                        r.violate('unescaped:%s:attr:%s' % (fname, what), 'reserved characters of a %s reach %s unescaped: %r' % (what.replace('-', ' '), fname, m.group(1)[:80]), dict(requests=[rq]), core.show(src, 300))
        elif fname == 'html':
            loc = between(out, 'qc0q', 'qd0q') or ''
            m = re.search(r'class="citation">\((.*?), \d+\)</a>', loc, re.S)
            if m and not HTML_TEXT_OK.match(m.group(1)):
                r.violate('unescaped:html:text:citation-locator', 'reserved characters of a citation locator reach html unescaped: %r' % m.group(1)[:80], dict(requests=[rq]), core.show(src, 300))
        err = check_nesting(fname, out)
        if err:
            r.violate('nesting:%s:image-alone-in-%s' % (fname, 'table-cell' if '|h|' in text else ('definition-term' if ': definition' in text else ('list-item' if '* two' in text else 'paragraph'))),
                      '%s markup is not properly nested: %s' % (fname, err), dict(requests=[rq]), core.show(src, 300))
    r.distinct.add(core.h64(src))
    r.sets['slot_kinds'].add('figure-short-alt')


def work(job):
    seed, lo, hi = job
    r = core.JobResult()
    with core.Session(r) as s:
        for i in range(lo, hi):
            rng = core.job_rng(seed, ID, i)
            if i % 29 == 5:
                figure_case(r, s, rng, i)
            elif i % 7 == 3:
                address_case(r, s, rng, i)
            elif i % 2 == 0:
                escaping_case(r, s, rng, i)
            else:
                conservation_case(r, s, rng, i)
    return r


SENT = re.compile(r'zq(\d+)x')


def work_repeat(job):
    """conservation at scale: N copies of one small block, every copy's sentinel exactly as often as in the source and in source order"""
    seed, ui, n = job
    r = core.JobResult()
    unit = gen.REPEAT_UNITS[ui]
    if unit[2] == 'html-only' or unit[0] in ('abbreviation',):
        return r
    name, src, _ = gen.repeated_blocks(unit=unit, n=n)
    with core.Session(r, timeout=60.0) as s:
        for fname in FORMATS:
            fmt = D.FMT[fname]
            rq = D.req_to_json('asan', 'CONVERT', fmt, EXT, 0, 1 | (1 << 4), [src])
            rep = s.call('asan', 'CONVERT', fmt, EXT, 0, 1 | (1 << 4), [src], crash_is_violation=False)
            r.evaluations += 1
            if rep is None or rep.status:
                continue
            out = rep.out.decode('utf-8', 'replace')
            seen = [int(x) for x in SENT.findall(out)]
            first = []
            have = set()
            for x in seen:
                if x not in have:
                    have.add(x)
                    first.append(x)
            r.stats['repeated_block_renderings_checked'] += 1
            missing = [i for i in range(n) if i not in have]
            if missing:
                r.violate('lost:repeat:%s:%s' % (fname, name), '%d x %s in %s: the text of %d copies is missing (first: copy %d)' % (n, name, fname, len(missing), missing[0]),
                          dict(requests=[rq]), 'unit: ' + core.show(unit[1], 100))
            elif first != sorted(first) and fname != 'opml':
                r.violate('order:repeat:%s:%s' % (fname, name), '%d x %s in %s: copies are not in source order' % (n, name, fname), dict(requests=[rq]), 'unit: ' + core.show(unit[1], 100))
        r.distinct.add(core.h64('rep', name, n))
        r.sets['repeated_units'].add('%s x %d' % (name, n))
    return r


RAW_FOR = {'html': ['html', '*'], 'latex': ['latex', '*'], 'beamer': ['latex', '*'], 'memoir': ['latex', '*'], 'fodt': ['odt', '*']}


def work_raw(job):
    """raw source for a format ({=format}) is carried into that format verbatim and nothing else comes with it (no fence, no marker)"""
    seed, lo, hi = job
    r = core.JobResult()
    with core.Session(r) as s:
        for i in range(lo, hi):
            rng = core.job_rng(seed, ID, 'raw', i)
            fname = rng.choice(sorted(RAW_FOR))
            tag = rng.choice(RAW_FOR[fname])
            pay = rng.choice(['RAW zqm', 'x zqm y', 'zqm(1, 2)', 'zqm ... done'])
            nfence = rng.choice([3, 4, 5])
            if rng.random() < 0.5:
                src = 'zqa\n\n%s{=%s}\n%s\n%s\n\nzqb\n' % ('`' * nfence, tag, pay, '`' * nfence)
                exp = 'zqa %s zqb' % pay
            else:
                src = 'zqa `%s`{=%s} zqb\n' % (pay, tag)
                exp = 'zqa %s zqb' % pay
            srcb = src.encode()
            rq = D.req_to_json('asan', 'CONVERT', D.FMT[fname], EXT, 0, 1 | (1 << 4), [srcb])
            rep = s.call('asan', 'CONVERT', D.FMT[fname], EXT, 0, 1 | (1 << 4), [srcb], crash_is_violation=False)
            r.evaluations += 1
            r.stats['raw_source_renderings_checked'] += 1
            if rep is None or rep.status:
                continue
            out = rep.out.decode('utf-8', 'replace')
            a, b = out.find('zqa'), out.find('zqb')
            if a < 0 or b < 0:
                r.violate('raw-source:%s:lost' % fname, 'text around a {=%s} raw source is missing from the %s output' % (tag, fname), dict(requests=[rq]), core.show(srcb, 200))
                continue
            seg = re.sub(r'<[^>]*>', ' ', out[a:b + 3]) if fname in ('html', 'fodt') else out[a:b + 3]
            seg = re.sub(r'\s+', ' ', seg).strip()
            if seg != exp:
                r.violate('raw-source:%s:%s' % (fname, 'block' if '\n\n' in src else 'span'), 'raw source tagged {=%s} is rendered as %r in %s, expected %r' % (tag, seg[:80], fname, exp), dict(requests=[rq]), core.show(srcb, 200))
            r.distinct.add(core.h64('raw', src, fname))
    return r


def main():
    chk = core.Check(ID)
    n = chk.scale(12000, 200000)
    chk.rule = ('even cases: slot documents with one of %d reserved/multi-byte characters placed literally between two sentinels in %d text, %d verbatim and %d attribute positions; '
                'odd cases: generated sentinel documents (paragraphs, headings, lists, quotes, tables, definition lists, code, links, notes, math, super/subscript) in a random spelling; '
                'x {html, latex, beamer, memoir, fodt, opml}; smart typography off; distinct = distinct sources (conservation cases count when >= 5 body words)' %
                (len(LITERAL), len(TEXT_SLOTS), len(VERBATIM_SLOTS), len(ATTR_SLOTS)))
    chk.rule = chk.rule + ' ; plus: autolinked addresses decoded and compared, figures with 1-3 character alternative texts / titles and citation locators with reserved characters, images alone in a cell / term / item, headings pushed beyond the deepest level, text after a table caption, and every 12th conservation document exported four times from one parsed tree'
    chk.assumptions = ['documents contain no raw HTML, raw-source filters, {{TOC}} or abbreviations (the exceptions the property names)',
                       'allowed escaped forms per format are taken from the format\'s own rules (XML entities; LaTeX control sequences listed in LATEX_ESC)']
    chunk = max(20, n // 64)
    chk.run_jobs(work, [(chk.seed, lo, min(n, lo + chunk)) for lo in range(0, n, chunk)])
    nr = chk.scale(480, 6000)
    chk.run_jobs(work_raw, [(chk.seed, lo, min(nr, lo + 30)) for lo in range(0, nr, 30)])
    counts = [1100, 2500] if not chk.thorough else [999, 1000, 1001, 1100, 2500, 5000]
    chk.run_jobs(work_repeat, [(chk.seed, ui, k) for ui in range(len(gen.REPEAT_UNITS)) for k in counts])
    return chk.finish()
