"""C19 -- DString operations behave like the obvious string model.

harness/dstr_model.c runs random operation sequences against the real d_string.c (ASan+UBSan build)
and an independent byte-vector model, comparing content, length, termination and capacity after
every operation.  Two domains: core (the quantifier's boundary set) and the overflow band
(lengths within 64 of SIZE_MAX)."""
import subprocess, re, os, collections
from lib import core, build

ID = 'C19'
ENV = dict(os.environ, ASAN_OPTIONS='abort_on_error=1:detect_leaks=0:allocator_may_return_null=1', UBSAN_OPTIONS='print_stacktrace=1:halt_on_error=1:abort_on_error=1')


def run_chunk(exe, seed, first, count, band, verbose=False):
    cmd = [exe, str(seed), str(first), str(count), str(band)] + (['v'] if verbose else [])
    p = subprocess.run(cmd, stdout=subprocess.PIPE, stderr=subprocess.PIPE, env=ENV, timeout=1200)
    return p.returncode, p.stdout.decode(errors='replace'), p.stderr.decode(errors='replace')


def work(job):
    seed, first, count, band = job
    r = core.JobResult()
    exe = build.build('asan', ('dstr_model',))['dstr_model']
    pos = first
    end = first + count
    dom = 'band' if band else 'core'
    while pos < end:
        rc, out, err = run_chunk(exe, seed, pos, end - pos, band)
        begun = [int(x) for x in re.findall(r'^BEGIN (\d+)', out, re.M)]
        for m in re.finditer(r'^MISMATCH (\d+) (\S+) (.*)$', out, re.M):
            n, op, detail = int(m.group(1)), m.group(2), m.group(3)
            cls = re.sub(r'-?\d+', 'N', detail)[:50].strip().replace(' ', '-')
            rc2, out2, err2 = run_chunk(exe, seed, n, 1, band, True)
            r.violate('model:%s:%s:%s' % (dom, op, cls), 'sequence %d (%s domain): %s %s' % (n, dom, op, detail),
                      dict(seed=seed, sequence=n, band=band), out2[-3000:])
        m = re.search(r'^DONE (\d+) (\d+) (\d+)', out, re.M)
        if m:
            r.evaluations += int(m.group(1))
            r.stats['operations:' + dom] += int(m.group(2))
            for k, v in re.findall(r'(\w+)=(\d+)', out.split('OPS')[-1]):
                r.stats['op:' + k] += int(v)
            r.distinct |= set((band, n) for n in range(pos, end))
            break
        # died in the middle of sequence `last`
        last = begun[-1] if begun else pos
        from lib.drv import sanitizer_key
        key = sanitizer_key(err, rc)
        rc2, out2, err2 = run_chunk(exe, seed, last, 1, band, True)
        r.violate('%s:%s' % (dom, key), 'sequence %d (%s domain) died: %s' % (last, dom, key), dict(seed=seed, sequence=last, band=band),
                  out2[-2500:] + '\n' + err[:4000])
        r.evaluations += last - pos + 1
        r.distinct |= set((band, n) for n in range(pos, last + 1))
        pos = last + 1
    if first == 0:
        rc2, out2, err2 = run_chunk(exe, seed, 0, 1, band, True)
        r.samples.append(dict(domain=dom, sequence=0, operations=out2.split('\n')[1:14]))
    return r


def replay(case):
    c = case['case']
    exe = build.build('asan', ('dstr_model',))['dstr_model']
    rc, out, err = run_chunk(exe, c['seed'], c['sequence'], 1, c['band'], True)
    print(out)
    print(err[:5000])
    return 0


def main():
    chk = core.Check(ID)
    n = chk.scale(60000, 3000000)
    chk.rule = ('sequence n = f(VERIF_SEED, n): d_string_new with a boundary-sized initial string, then 1..40 operations over the 13 public functions '
                'with positions/lengths from {0,1,len-1,len,len+1,2len,SIZE_MAX,random} and sizes around 1024/2048/4096/65536, NULL and NUL arguments, '
                'byte arrays with embedded NULs; core domain and overflow band (lengths in [SIZE_MAX-64, SIZE_MAX-2]) kept apart; '
                'distinct = distinct (domain, sequence number); every sequence compares model and DString after each operation')
    chk.assumptions = ['empty search string in replace_text_in_range is outside the domain (not generated)',
                       'replace_text_in_range: an occurrence counts as inside the range when it *starts* inside it (the header says "inside the specified range" and no more; the model follows the implementation and the CuTest cases)',
                       'copy_substring / replace are not issued while the buffer holds embedded NULs (C-string semantics)']
    # witnesses of earlier findings: fixed seeds/sequences
    for e in chk.known.witnesses():
        w = e['witness']
        chk.merge(work((w['seed'], w['sequence'], 1, w['band'])))
    chunk = max(500, n // 64)
    jobs = []
    for band in (0, 1):
        m = n * 2 // 3 if band == 0 else n // 3
        jobs += [(chk.seed, lo, min(chunk, m - lo), band) for lo in range(0, m, chunk)]
    chk.run_jobs(work, jobs)
    return chk.finish()
