"""C02 -- every input yields a complete rendering; nothing is silently dropped.

Monitors: hook counters (parser syntax error / parse failure, writers' unknown-token branches,
process_definition_block default), exit() wrap, fd-2 strings, non-empty output, per-line sentinel
presence, watchdog.  Workload: all line-kind sequences up to length L (bounded-exhaustive over one
representative per kind), random longer sequences, hostile byte strings, x 7 writers x {MMD, compat}.
"""
import re
from lib import core, gen, drv as D

ID = 'C02'
F = D.FMT
FMTS = [F['html'], F['latex'], F['beamer'], F['memoir'], F['fodt'], F['opml'], F['itmz']]
EXTS = [D.EXT_CLI, D.EXT_CLI_COMPAT]
ALL = 0x7f
TEXTUAL = 0x1f          # html latex beamer memoir fodt
OUTLINE = 0x60          # opml, itmz: the source is stored, every line's text must be there
HTML_ONLY = 0x01

# (name, text, must-mask, absorb-mask).  A line kind "absorbs" in a format when lines after it may
# legitimately not be rendered there (continuation of an unused definition, of a metadata value,
# of an HTML block or comment that the non-HTML writers drop by design ...).
KINDS = [
    ('plain',        'zq@@k0x plain text',                  ALL, 0),
    ('indent-space', '    zq@@k1x code',                    ALL, 0),
    ('indent-tab',   '\\tzq@@k2x code',                     ALL, 0),
    ('bullet',       '* zq@@k3x item',                      ALL, 0),
    ('enumerated',   '1. zq@@k4x item',                     ALL, 0),
    ('quote',        '> zq@@k5x quote',                     ALL, 0),
    ('atx1',         '# zq@@k6x #',                         ALL, 0),
    ('atx2',         '## zq@@k7x',                          ALL, 0),
    ('atx3',         '### zq@@k8x ###',                     ALL, 0),
    ('atx4',         '#### zq@@k9x',                        ALL, 0),
    ('atx5',         '##### zq@@k10x',                      ALL, 0),
    ('atx6',         '###### zq@@k11x ######',              ALL, 0),
    ('setext1',      '=====',                               0, 0),
    ('dashes',       '-----',                               0, TEXTUAL),   # Setext-2 / HR / YAML fence at the top
    ('hr',           '* * *',                               0, 0),
    ('fence-start3', '```zq@@k15x',                         OUTLINE, 0),
    ('fence3',       '```',                                 0, 0),
    ('fence4',       '````',                                0, 0),
    ('fence5',       '`````',                               0, 0),
    ('fence-start4', '````lang',                            0, 0),
    ('fence-start5', '`````lang',                           0, 0),
    ('table-row',    '| zq@@k21x | b |',                    ALL, 0),
    ('table-sep',    '|---|---|',                           0, 0),
    ('definition',   ': zq@@k23x def',                      ALL, 0),
    ('meta',         'Key@@k24: zq@@k24x value',            OUTLINE, TEXTUAL),
    ('html',         '<div>zq@@k25x</div>',                 OUTLINE | HTML_ONLY, TEXTUAL),
    ('comment-start', '<!-- zq@@k26x',                      OUTLINE, TEXTUAL),
    ('comment-stop', 'zq@@k27x -->',                        OUTLINE, TEXTUAL),
    ('def-link',     '[ref@@]: http://zq@@k28x.example',    OUTLINE, TEXTUAL),
    ('def-footnote', '[^fn@@]: zq@@k29x note',              OUTLINE, TEXTUAL),
    ('def-citation', '[#ci@@]: zq@@k30x cite',              OUTLINE, TEXTUAL),
    ('def-glossary', '[?gl@@]: zq@@k31x gloss',             OUTLINE, TEXTUAL),
    ('def-abbrev',   '[>ab@@]: zq@@k32x abbr',              OUTLINE, TEXTUAL),
    ('toc',          '{{TOC}}',                             0, 0),
    ('empty',        '',                                    0, 0),
    ('pipe-plain',   'zq@@k35x a | b',                      ALL, 0),
    ('bullet-pipe',  '* zq@@k36x | b |',                    ALL, 0),
    ('enum-pipe',    '1. zq@@k37x | b',                     ALL, 0),
    ('quote-pipe',   '> | zq@@k38x | b |',                  ALL, 0),
    ('toc-trailing', '{{TOC}} zq@@k39x trailing words',     ALL, 0),
]
K = len(KINDS)
LINE_NAMES = {1: 'HR', 2: 'SETEXT_1', 3: 'SETEXT_2', 4: 'YAML', 5: 'CONTINUATION', 6: 'PLAIN', 7: 'INDENTED_TAB', 8: 'INDENTED_SPACE',
              9: 'TABLE', 10: 'TABLE_SEPARATOR', 11: 'FALLBACK', 12: 'HTML', 13: 'ATX_1', 14: 'ATX_2', 15: 'ATX_3', 16: 'ATX_4', 17: 'ATX_5',
              18: 'ATX_6', 19: 'BLOCKQUOTE', 20: 'LIST_BULLETED', 21: 'LIST_ENUMERATED', 22: 'DEF_ABBREVIATION', 23: 'DEF_CITATION',
              24: 'DEF_FOOTNOTE', 25: 'DEF_GLOSSARY', 26: 'DEF_LINK', 27: 'TOC', 28: 'DEFINITION', 29: 'META', 30: 'BACKTICK',
              31: 'FENCE_BACKTICK_3', 32: 'FENCE_BACKTICK_4', 33: 'FENCE_BACKTICK_5', 34: 'FENCE_BACKTICK_START_3',
              35: 'FENCE_BACKTICK_START_4', 36: 'FENCE_BACKTICK_START_5', 37: 'STOP_COMMENT', 38: 'EMPTY', 39: 'START_COMMENT'}
EV_NAMES = {1: 'parse-syntax-error', 2: 'parse-failed', 3: 'unknown-token', 4: 'process-default', 5: 'process-variable'}
W_NAMES = {1: 'html', 2: 'latex', 3: 'odf'}


def spec_header(lo, hi, L):
    h = '%d %d %d %d %d %s %d %s\n' % (K, L, lo, hi, len(FMTS), ' '.join(map(str, FMTS)), len(EXTS), ' '.join(map(str, EXTS)))
    for name, text, must, absorb in KINDS:
        h += '%d %d\t%s\n' % (must, absorb, text)
    return h


def doc_for(seq):
    out = []
    for j, k in enumerate(seq):
        out.append(KINDS[k][1].replace('@@', str(j)).replace('\\t', '\t').replace('\\n', '\n'))
    return ('\n'.join(out) + '\n').encode()


def fail_key(why):
    """Signature naming the failing site, not the input."""
    p = why.split(':')
    if p[0] in ('event', 'exit'):
        kind, a, b = int(p[1]), int(p[2]), int(p[3])
        name = EV_NAMES.get(kind, 'event%d' % kind)
        s = name
        if kind == 3:
            s = '%s:%s:type%d' % (name, W_NAMES.get(a, a), b)
        elif kind == 4:
            s = '%s:block%d' % (name, a)
        elif kind == 1:
            s = '%s:line%s' % (name, LINE_NAMES.get(a, a))
        return ('exit+' if p[0] == 'exit' else '') + s
    if p[0] == 'lost':
        m = re.match(r'zq\d+k(\d+)x', p[1])
        return 'lost-line:%s' % KINDS[int(m.group(1))][0]
    return p[0]


def handle_batch(r, rep, spec_desc):
    lines = rep.fields[0].decode().split('\n')
    conv, seqs, nfail = map(int, lines[0].split())
    r.evaluations += conv
    r.stats['sequences'] += seqs
    r.stats['conversions'] += conv
    hist = list(map(int, rep.fields[1].split()))
    for t, n in enumerate(hist):
        if n:
            r.sets['line_types_reaching_parser'].add(LINE_NAMES.get(t, str(t)))
    big = rep.fields[2]
    for a in range(64):
        for b in range(64):
            if big[a * 64 + b]:
                r.sets['line_type_bigrams'].add(a * 64 + b)
    for ln in lines[1:]:
        if not ln.strip():
            continue
        idx, fmt, ext, why, seq = ln.split('\t')
        seq = [int(x) for x in seq.split()]
        fmt, ext = int(fmt), int(ext)
        key = fail_key(why)
        mode = 'compat' if ext & 1 else 'mmd'
        if key.startswith('lost-line'):
            key += ':%s' % D.FMT_NAME[fmt]
        src = doc_for(seq)
        r.violate(key, '%s in %s/%s for line kinds %s' % (why, D.FMT_NAME[fmt], mode, [KINDS[k][0] for k in seq]),
                  dict(requests=[D.req_to_json('asan', 'CONVERT', fmt, ext, 0, 2 | (1 << 4), [src])], kinds=[KINDS[k][0] for k in seq], why=why),
                  core.show(src, 500))
    r.stats['failing_conversions'] += nfail


def work_enum(job):
    seed, lo, hi, L = job
    r = core.JobResult()
    with core.Session(r, timeout=300) as s:
        rep = s.call('asan', 'LINEKINDS', args=[spec_header(lo, hi, L)], what='[enumeration %d..%d]' % (lo, hi), hang_is_violation=True)
        if rep is not None:
            handle_batch(r, rep, (lo, hi))
            r.distinct |= set(range(lo, hi))
            if lo == 0:
                r.samples.append(dict(sequence_index=K + 5, kinds=[KINDS[0][0], KINDS[5][0]], document=core.show(doc_for([0, 5]))))
    return r


def work_random(job):
    seed, j, nseq = job
    r = core.JobResult()
    rng = core.job_rng(seed, ID, 'rand', j)
    seqs = []
    for _ in range(nseq):
        n = rng.randint(5, 14)
        # biased: repeat kinds / insert blank lines, as real documents do
        seq = []
        while len(seq) < n:
            k = rng.randrange(K)
            seq.append(k)
            if rng.random() < 0.25:
                seq.append(k)
            if rng.random() < 0.15:
                seq.append(34)
        seqs.append(seq[:30])
    spec = spec_header(-1, len(seqs), 3) + ''.join('%d %s\n' % (len(q), ' '.join(map(str, q))) for q in seqs)
    with core.Session(r, timeout=300) as s:
        rep = s.call('asan', 'LINEKINDS', args=[spec], what='[random sequences job %d]' % j, hang_is_violation=True)
        if rep is not None:
            handle_batch(r, rep, j)
            for q in seqs:
                r.distinct.add(core.h64(*q))
            r.samples.append(dict(kinds=[KINDS[k][0] for k in seqs[0]], document=core.show(doc_for(seqs[0]), 400)))
    return r


BAD_STDERR = re.compile(rb'Unknown token type|Parser failed|Parser syntax error|^process \d+|Process variable', re.M)


def judge_reply(r, rep, src, fmt, ext, case, tag):
    mode = 'compat' if ext & 1 else 'mmd'
    if rep.status == D.ST_EXIT:
        evs = rep.event_list()
        why = 'exit:%d:%d:%d' % (evs[0] if evs else (0, 0, 0))
        r.violate(fail_key(why), 'library called exit() in %s/%s [%s]' % (D.FMT_NAME[fmt], mode, tag), case, core.show(src, 500) + '\nfd2: ' + core.show(rep.stderr, 300))
        return
    if rep.ev_total:
        k, a, b = rep.event_list()[0]
        r.violate(fail_key('event:%d:%d:%d' % (k, a, b)), 'escape event in %s/%s [%s]: %s' % (D.FMT_NAME[fmt], mode, tag, rep.events), case, core.show(src, 500) + '\nfd2: ' + core.show(rep.stderr, 300))
        return
    m = BAD_STDERR.search(rep.stderr)
    if m:
        r.violate('fd2:' + m.group(0).decode().split()[0], 'diagnostic on fd 2 in %s/%s: %s' % (D.FMT_NAME[fmt], mode, core.show(rep.stderr, 200)), case, core.show(src, 500))
        return
    if src.strip(b' \t\r\n') and len(rep.out) == 0:
        r.violate('empty-output', 'empty output for non-blank input in %s/%s' % (D.FMT_NAME[fmt], mode), case, core.show(src, 500))


def work_bytes(job):
    seed, lo, hi = job
    r = core.JobResult()
    with core.Session(r) as s:
        for i in range(lo, hi):
            rng = core.job_rng(seed, ID, 'bytes', i)
            src = gen.gen_bytes(rng)
            src = src.split(b'\0')[0]
            ext = rng.choice(EXTS) if rng.random() < 0.7 else (gen.rand_ext(rng) & ~(D.EXT['PARSE_OPML'] | D.EXT['PARSE_ITMZ']))
            for fmt in FMTS:
                case = dict(requests=[D.req_to_json('asan', 'CONVERT', fmt, ext, 0, 2 | (1 << 4), [src])])
                rep = s.call('asan', 'CONVERT', fmt, ext, 0, 2 | (1 << 4), [src], what='[bytes]', hang_is_violation=True, crash_is_violation=True)
                r.evaluations += 1
                r.stats['conversions'] += 1
                if rep is None:
                    r.stats['crashed-or-hung (C01 territory unless hang)'] += 1
                    continue
                judge_reply(r, rep, src, fmt, ext, case, 'bytes')
            r.distinct.add(core.h64(src, ext))
            if i == lo and lo % 7 == 0:
                r.samples.append(dict(kind='hostile bytes', ext=hex(ext), source=core.show(src, 200)))
    return r


def seq_of(n, L):
    out = []
    for _ in range(L):
        out.append(n % K)
        n //= K
    return out


def work_eof(job):
    """all line-kind sequences of length <= L whose last line has no line ending (the enumeration above always ends lines)"""
    seed, lo, hi, L = job
    r = core.JobResult()
    with core.Session(r) as s:
        for n in range(lo, hi):
            # n indexes sequences of length 1..L in order
            m, l = n, 1
            while m >= K ** l:
                m -= K ** l
                l += 1
            seq = seq_of(m, l)
            src = doc_for(seq)[:-1]
            for fmt in FMTS:
                for ext in EXTS:
                    case = dict(requests=[D.req_to_json('asan', 'CONVERT', fmt, ext, 0, 2 | (1 << 4), [src])])
                    rep = s.call('asan', 'CONVERT', fmt, ext, 0, 2 | (1 << 4), [src], what='[no final newline %s]' % [KINDS[k][0] for k in seq], hang_is_violation=True, crash_is_violation=True)
                    r.evaluations += 1
                    r.stats['conversions_no_final_newline'] += 1
                    if rep is not None:
                        judge_reply(r, rep, src, fmt, ext, case, 'eof:' + '+'.join(KINDS[k][0] for k in seq[-2:]))
            r.distinct.add(core.h64('eof', src))
    return r


def work_repeat(job):
    """N copies of one small block: per-document counters, recursion budgets and table sizes; first/middle/last sentinel must be rendered"""
    seed, ui, n = job
    r = core.JobResult()
    unit = gen.REPEAT_UNITS[ui]
    name, src, words = gen.repeated_blocks(unit=unit, n=n)
    with core.Session(r, timeout=60.0) as s:
        for fmt in FMTS:
            for ext in EXTS:
                if ext & 1 and name in ('definition', 'footnote', 'inline-footnote', 'citation', 'abbreviation', 'table', 'fenced', 'math'):
                    continue        # not Markdown constructs
                case = dict(requests=[D.req_to_json('asan', 'CONVERT', fmt, ext, 0, 2 | (1 << 4), [src])])
                rep = s.call('asan', 'CONVERT', fmt, ext, 0, 2 | (1 << 4), [src], what='[%d x %s]' % (n, name), hang_is_violation=True, crash_is_violation=True,
                             key_suffix=(':more-than-32767-%s-blocks' % name) if n > 32767 else '')
                r.evaluations += 1
                r.stats['conversions_repeated_blocks'] += 1
                if rep is None:
                    continue
                judge_reply(r, rep, src, fmt, ext, case, 'repeat:' + name)
                if fmt == F['itmz'] or (unit[2] == 'html-only' and fmt != F['html']):
                    continue
                for w in words:
                    if w.encode() not in rep.out:
                        r.violate('dropped:repeat:%s:%s' % (name, D.FMT_NAME[fmt]), 'block %s of %d x %s is missing from the %s output' % (w, n, name, D.FMT_NAME[fmt]), case,
                                  'unit: ' + core.show(unit[1], 100))
                        break
        r.distinct.add(core.h64('rep', name, n))
        r.sets['repeated_units'].add('%s x %d' % (name, n))
    return r


CONTAINERS = [
    ('footnote-def', 'call[^cfn]\n\n[^cfn]: %s\n', '    %s\n'),
    ('list-item', '* %s\n', '    %s\n'),
    ('loose-item', '* first\n\n* %s\n\n', '    %s\n'),
    ('quote', '> %s\n', '> %s\n'),
    ('definition', 'term\n: %s\n', '    %s\n'),
    ('citation-def', 'cite[#ccn]\n\n[#ccn]: %s\n', '    %s\n'),
    ('glossary-def', 'gl[?cgl]\n\n[?cgl]: %s\n', '    %s\n'),
    ('quote-in-item', '* item\n\n    > %s\n', '    > %s\n'),
]


def work_containers(job):
    """two-line sequences inside containers (a note definition, list item, quote, definition...): the text of every line that must be
    rendered at top level must still be rendered when the container's content starts with it"""
    seed, ci, lo, hi = job
    r = core.JobResult()
    cname, first, cont = CONTAINERS[ci]
    firsts = [k for k in range(K) if KINDS[k][2] == ALL and KINDS[k][3] == 0]
    with core.Session(r) as s:
        for n in range(lo, hi):
            k1, k2 = firsts[n // K % len(firsts)], n % K
            l1 = KINDS[k1][1].replace('@@', '0').replace('\\t', '\t')
            l2 = KINDS[k2][1].replace('@@', '1').replace('\\t', '\t')
            src = (first % l1 + (cont % l2 if l2 else '\n')).encode()
            want = re.findall(r'zq0k\d+x', l1)
            if KINDS[k2][2] == ALL:
                want += re.findall(r'zq1k\d+x', l2)
            for fi, fmt in enumerate(FMTS):
                if fmt == F['itmz']:
                    continue
                if cname == 'glossary-def' and fmt in (F['latex'], F['beamer'], F['memoir']):
                    continue        # glossary definitions go to the LaTeX preamble (complete documents only): not body text there
                ext = D.EXT_CLI
                case = dict(requests=[D.req_to_json('asan', 'CONVERT', fmt, ext, 0, 2 | (1 << 4), [src])])
                rep = s.call('asan', 'CONVERT', fmt, ext, 0, 2 | (1 << 4), [src], what='[%s: %s + %s]' % (cname, KINDS[k1][0], KINDS[k2][0]), hang_is_violation=True, crash_is_violation=True)
                r.evaluations += 1
                r.stats['conversions_in_containers'] += 1
                if rep is None:
                    continue
                judge_reply(r, rep, src, fmt, ext, case, 'container:' + cname)
                for w in want:
                    if w.encode() not in rep.out:
                        r.violate('lost-line:in-%s:%s+%s:%s' % (cname, KINDS[k1][0], KINDS[k2][0], D.FMT_NAME[fmt]), 'the text of a %s line inside a %s is missing from the %s output when a %s line follows it' %
                                  (KINDS[k1][0] if w.startswith('zq0') else KINDS[k2][0], cname, D.FMT_NAME[fmt], KINDS[k2][0]), case, core.show(src, 300))
                        break
            r.distinct.add(core.h64('cont', src))
            r.sets['containers'].add(cname)
    return r


WWORD = re.compile(rb'(?<![A-Za-z0-9])[wf]\d+(?![A-Za-z0-9])')          # w: body words, f: words of note texts (a note may be called only from inside another note)


def work_docs(job):
    """structured generated documents (nested lists with continuation paragraphs, wrapped lines, quotes, tables, notes): every body word of the
    source must be in every writer's output -- a parser that silently restarts drops whole blocks without any diagnostic"""
    from lib import gendoc
    seed, lo, hi = job
    r = core.JobResult()
    with core.Session(r) as s:
        for i in range(lo, hi):
            rng = core.job_rng(seed, ID, 'docs', i)
            g = gendoc.Gen(rng, sentinels=True, features=set(['emph', 'strong', 'code', 'link', 'esc', 'break', 'softbreak', 'quote', 'list', 'deep-items', 'tight-children', 'codeblock', 'rule',
                                                               'heading', 'table', 'deflist', 'footnote', 'nested-footnote']))
            doc = g.doc(nblocks=rng.randint(2, 6))
            src = gendoc.serialize(doc, gendoc.Spelling(rng, eol=rng.choice(['\n', '\n', '\r\n']))).encode('utf-8')
            want = set(WWORD.findall(src))
            for fmt in (F['html'], F['latex'], F['fodt'], F['opml']):
                ext = D.EXT_CLI
                case = dict(requests=[D.req_to_json('asan', 'CONVERT', fmt, ext, 0, 2 | (1 << 4), [src])])
                rep = s.call('asan', 'CONVERT', fmt, ext, 0, 2 | (1 << 4), [src], what='[structured document]', hang_is_violation=True, crash_is_violation=True)
                r.evaluations += 1
                r.stats['conversions_structured_documents'] += 1
                if rep is None:
                    continue
                judge_reply(r, rep, src, fmt, ext, case, 'docs')
                have = set(WWORD.findall(rep.out))
                missing = sorted(want - have)
                if missing:
                    r.violate('dropped:document:%s' % D.FMT_NAME[fmt], '%d of %d body words of a structured document are missing from the %s output (first: %s)' % (len(missing), len(want), D.FMT_NAME[fmt], missing[0].decode()),
                              case, core.show(src, 700))
            if i % 5 == 0:
                # parse once, export several times (mmd_engine_parse_string + mmd_engine_export_token_tree): every export is as clean as the first
                hist = []
                ok = True
                for sub, fmt, args in ((0, 0, [src]), (12, 0, [b'']), (14, F['html'], [b'']), (14, F['latex'], [b'']), (14, F['html'], [b''])):
                    rq = D.req_to_json('asan', 'ENGINE', fmt, D.EXT_CLI, 0, 0 | (sub << 4), args)
                    hist.append(rq)
                    rep = s.call('asan', *D.req_from_json(rq), history=hist[:-1], crash_is_violation=False)
                    r.evaluations += 1
                    if rep is None:
                        ok = False
                        break
                    if sub == 14:
                        r.stats['repeated_exports_judged'] += 1
                        judge_reply(r, rep, src, fmt, D.EXT_CLI, dict(requests=list(hist)), 'export-%d-of-one-tree' % (len(hist) - 2))
                if ok:
                    s.call('asan', 'ENGINE', 0, 0, 0, 0 | (9 << 4), [b''], crash_is_violation=False)
            r.distinct.add(core.h64('doc', src))
    return r


def replay_known(chk):
    r = core.JobResult()
    with core.Session(r) as s:
        for e in chk.known.witnesses():
            for rq in e['witness'].get('requests', []):
                op, fmt, ext, lang, flags, args = D.req_from_json(rq)
                case = dict(requests=[rq])
                rep = s.call(rq['variant'], op, fmt, ext, lang, flags, args, what='[witness of %s]' % e['key'], hang_is_violation=True, crash_is_violation=False)
                r.evaluations += 1
                if rep is not None and op == D.OP['CONVERT']:
                    judge_reply(r, rep, args[0], fmt, ext, case, 'witness')
    chk.merge(r)


def main():
    chk = core.Check(ID)
    L = 4 if chk.thorough else 3
    total = sum(K ** l for l in range(1, L + 1))
    chk.rule = ('(a) ALL sequences of length 1..%d over %d line-kind representatives (%d sequences), (b) random sequences of length 5-30, '
                '(c) hostile byte strings, (d) all sequences of length <= 2 (3 thorough) with no final line ending, (e) N copies of each of 18 small blocks, N up to 2000 (5000), (f) structured generated documents whose every body word must be rendered; each x 7 writers (html latex beamer memoir fodt opml itmz) x {MMD, compatibility}. '
                'distinct = distinct line-kind sequences / distinct (bytes, ext) inputs; every one is non-trivial (>=1 line, 14 conversions judged)' % (L, K, total))
    chk.assumptions = ['one representative text per line kind (exhaustive over representatives, not over all texts of a kind)',
                       'sentinel presence is demanded only for kinds/format pairs the documentation promises to render, and never after an absorbing kind']
    replay_known(chk)
    step = max(200, total // 256)
    jobs = [(chk.seed, lo, min(total, lo + step), L) for lo in range(0, total, step)]
    chk.run_jobs(work_enum, jobs)
    nrand = chk.scale(64, 2000)
    chk.run_jobs(work_random, [(chk.seed, j, 150) for j in range(nrand)])
    nbytes = chk.scale(6000, 300000)
    chunk = max(50, nbytes // 64)
    chk.run_jobs(work_bytes, [(chk.seed, lo, min(nbytes, lo + chunk)) for lo in range(0, nbytes, chunk)])
    Le = 3 if chk.thorough else 2
    te = sum(K ** l for l in range(1, Le + 1))
    stepe = max(50, te // 64)
    chk.run_jobs(work_eof, [(chk.seed, lo, min(te, lo + stepe), Le) for lo in range(0, te, stepe)])
    nfirst = len([k for k in range(K) if KINDS[k][2] == ALL and KINDS[k][3] == 0])
    tot = nfirst * K
    chk.run_jobs(work_containers, [(chk.seed, ci, lo, min(tot, lo + 200)) for ci in range(len(CONTAINERS)) for lo in range(0, tot, 200)])
    nd = chk.scale(1600, 60000)
    chk.run_jobs(work_docs, [(chk.seed, lo, min(nd, lo + 25)) for lo in range(0, nd, 25)])
    counts = gen.REPEAT_COUNTS if chk.thorough else [100, 999, 1000, 1100, 2000]
    rjobs = [(chk.seed, ui, n) for ui in range(len(gen.REPEAT_UNITS)) for n in counts]
    # counters behind notes, citations, abbreviations and labels: beyond 2^15 and (thorough) 2^16 of them in one document
    big = [33000] + ([66000] if chk.thorough else [])
    rjobs += [(chk.seed, ui, n) for ui, u in enumerate(gen.REPEAT_UNITS) if u[0] in (('footnote',) if not chk.thorough else ('footnote', 'inline-footnote', 'citation', 'abbreviation', 'ref-link', 'heading', 'image')) for n in big]
    chk.run_jobs(work_repeat, rjobs)
    chk.coverage_extra['exhaustive'] = True
    chk.coverage_extra['exhaustive_scope'] = 'all %d line-kind sequences of length <= %d over %d representatives; the random and byte-string parts are sampled' % (total, L, K)
    chk.coverage_extra['line_kinds'] = [k[0] for k in KINDS]
    return chk.finish()
