"""C20 -- document wrapper and metadata never change the body rendering.

Metamorphic relations between executions of the real code:
 (1) the snippet rendering occurs verbatim, exactly once, inside the complete rendering, and what
     surrounds it carries no body text;
 (2) without either switch the output is exactly one of the two -- complete precisely when the
     metadata has a key outside the rendering-control set (and metadata is enabled);
 (3) metadata that differs only in keys outside the documented body-affecting set leaves the snippet
     rendering unchanged (and equal to the rendering of the bare body);
 (4) key order does not change the mode;
 (5) [%key] renders the value and changes nothing else.
"""
import re
from lib import core, gen, gendoc, drv as D

ID = 'C20'
E = D.EXT
FORMATS = ['html', 'latex', 'beamer', 'memoir']
CONTROL = ['Base Header Level', 'HTML Header Level', 'XHTML Header Level', 'LaTeX Header Level', 'EPUB Header Level', 'ODF Header Level', 'Language', 'Quotes Language', 'LaTeX Mode']
NEUTRAL_KEYS = ['Title', 'Author', 'Date', 'Copyright', 'Keywords', 'Subtitle', 'Affiliation', 'Revision', 'Custom Thing', 'X-Y.z', 'CSS', 'HTML Header', 'XHTML Header',
                'LaTeX Leader', 'LaTeX Begin', 'LaTeX Footer', 'LaTeX Config', 'LaTeX Title', 'LaTeX Author', 'ODF Header', 'Email', 'Web', 'Phone', 'My Own Key 7']
NEUTRAL_VALUES = ['Plain', 'Two words', 'A & B', 'x < y', '"quoted"', "it's", '100% sure', 'under_score', 'a#b', 'dollar $5', 'back\\slash', '{braces}', 'é ü 中', 'http://e.x/?a=1&b=2',
                  '*star*', '`tick`', 'jo@example.org', 'Jo <jo@example.org>', 'mailto:jo@x.org', 'tilde~ caret^', 'style.css', '<meta name="x" content="y">', 'article', 'm%d sentinel',
                  'Ann Lee; Bob Ray', 'One, Two and Three', 'a; b; c', 'and \\and more', 'semi;colon m%d']


def strip_meta(doc):
    lines = doc.split(b'\n')
    if lines and re.match(rb'^[A-Za-z0-9][A-Za-z0-9_ \t\-\.]*:', lines[0]):
        i = 0
        while i < len(lines) and lines[i].strip():
            i += 1
        return b'\n'.join(lines[i + 1:])
    return doc


def gen_body(rng):
    if rng.random() < 0.4:
        d = strip_meta(rng.choice(gen.corpus_list()))
        d = d[:3000]
        try:
            d.decode('utf-8')
        except UnicodeDecodeError:
            d = d.decode('utf-8', 'replace').encode('utf-8')
        d = d.split(b'\0')[0].replace(b'\r', b'')
    else:
        d = gendoc.serialize(gendoc.Gen(rng, sentinels=True).doc(), gendoc.Spelling(rng, eol='\n', lead=0)).encode('utf-8')
    # the bare body must not itself start with something that reads as metadata, a BOM or a variable/transclusion
    d = d.lstrip(b'\n\xef\xbb\xbf')
    if re.match(rb'^\s*[A-Za-z0-9][A-Za-z0-9_ \t\-\.]*:', d) or d.startswith(b'---'):
        d = b'Body starts here.\n\n' + d
    d = d.replace(b'[%', b'[ %').replace(b'{{', b'{ {')
    if rng.random() < 0.08:
        # a glossary definition that itself cites / carries a note: in complete LaTeX documents the definitions are written into the preamble
        d += b'\n\nFirst[#cz1] and the term [?gz] and later[#cz2].\n\n[?gz]: A definition that cites[#cz2] and notes[^nz].\n\n[#cz1]: One.\n\n[#cz2]: Two.\n\n[^nz]: note\n'
    if rng.random() < 0.2:
        # users of hidden state (obfuscation random numbers, counters): the wrapper must not disturb them
        d += b'\n\n' + gen.state_heavy(rng).replace(b'{{TOC}}', b'')
    return d


def meta_block(pairs):
    return ''.join('%s: %s\n' % kv for kv in pairs).encode('utf-8') + b'\n'


def neutral_pairs(rng, n):
    ks = rng.sample(NEUTRAL_KEYS, n)
    out = []
    for i, k in enumerate(ks):
        v = rng.choice(NEUTRAL_VALUES)
        if '%d' in v:
            v = v % rng.randint(1000, 9999)
        out.append((k, v))
    return out


def control_pairs(rng, fmt):
    out = []
    for k in rng.sample(CONTROL, rng.randint(1, 3)):
        if 'Level' in k:
            v = str(rng.randint(1, 4))
        elif k == 'Language':
            v = rng.choice(['de', 'fr', 'en', 'sv', 'es', 'nl'])
        elif k == 'Quotes Language':
            v = rng.choice(['german', 'french', 'english', 'swedish', 'dutch', 'germanguillemets'])
        else:
            v = rng.choice(['memoir', 'beamer', 'article'])
        out.append((k, v))
    return out


class Ctx:
    def __init__(self, r, s, fmt, base):
        self.r, self.s, self.fmt, self.base = r, s, fmt, base
        self.reqs = []

    def out(self, src, extra=0):
        rq = D.req_to_json('asan', 'CONVERT', D.FMT[self.fmt], self.base | extra, 0, 1 | (1 << 4), [src])
        self.reqs.append(rq)
        rep = self.s.call('asan', *D.req_from_json(rq), crash_is_violation=False)
        self.r.evaluations += 1
        if rep is None or rep.status:
            return None
        return rep.out


def first_diff(a, b):
    i = 0
    while i < min(len(a), len(b)) and a[i] == b[i]:
        i += 1
    return 'byte %d: %s | %s' % (i, core.show(a[max(0, i - 50):i + 70]), core.show(b[max(0, i - 50):i + 70]))


def check_case(r, s, rng, fmt):
    base = rng.choice([D.EXT_CLI, D.EXT_CLI, D.EXT_CLI & ~E['SMART'], D.EXT_CLI | E['NO_LABELS'], D.EXT_CLI & ~E['NOTES']])
    c = Ctx(r, s, fmt, base)
    body = gen_body(rng)
    kind = rng.choice(['none', 'control', 'neutral', 'neutral', 'mixed', 'yaml', 'yaml-control', 'yaml-mixed'])
    if kind == 'none':
        pairs = []
    elif kind in ('control', 'yaml-control'):
        pairs = control_pairs(rng, fmt)
    elif kind in ('mixed', 'yaml-mixed'):
        pairs = neutral_pairs(rng, rng.randint(1, 3)) + control_pairs(rng, fmt)
        rng.shuffle(pairs)
    else:
        pairs = neutral_pairs(rng, rng.randint(1, 5))
    mb = meta_block(pairs) if pairs else b''
    if kind.startswith('yaml') and pairs:
        mb = b'---\n' + mb[:-1] + b'---\n\n'
    uses_vars = False
    if pairs and rng.random() < 0.2:
        uses_vars = True
        # values substituted as variables: the snippet and the complete document must substitute the same text (the header routines read the same values)
        ks = [k for k, _ in pairs if k not in CONTROL][:3] + ['nokey']
        body = body.rstrip(b'\n') + b'\n\nVariables: ' + b' / '.join(b'[%' + k.lower().encode() + b']' for k in ks) + b' end.\n'
    src = mb + body
    has_ctl = any(k in CONTROL for k, _ in pairs)
    has_neutral = any(k not in CONTROL for k, _ in pairs)
    site = '%s:%s' % (fmt, kind)

    def bad(key, what, detail):
        cause = ':glossary-definition-with-citation' if (b'[?gz]:' in body and fmt in ('latex', 'beamer', 'memoir') and key in ('snippet-not-in-complete', 'default-is-neither')) else ''
        r.violate('%s:%s%s' % (key, fmt, cause), what, dict(requests=list(c.reqs[-4:])), (detail + '\nsource: ' + core.show(src, 500))[:2500])
    S = c.out(src, E['SNIPPET'])
    F = c.out(src, E['COMPLETE'])
    Dd = c.out(src, 0)
    if S is None or F is None or Dd is None:
        r.stats['crashed/exited (C01/C02 territory)'] += 1
        return
    # (1)
    core_s = S.strip(b'\n')
    if core_s:
        n = F.count(core_s)
        if n != 1:
            bad('snippet-not-in-complete', 'the snippet rendering occurs %d times in the complete rendering (%s)' % (n, kind), first_diff(core_s, F[F.find(core_s[:40]):] if core_s[:40] in F else F))
        else:
            head, foot = F.split(core_s, 1)
            body_words = set(re.findall(rb'\bw\d+\b', body))
            leak = [w for w in body_words if re.search(rb'(?<![\w.])' + w + rb'(?![\w.])', head + b' ' + foot)]
            if leak:
                bad('body-text-in-wrapper', 'body word %s appears in the header/footer of the complete document' % leak[0].decode(), core.show(head[-300:] + b' ... ' + foot[:300]))
    r.stats['relation1_checked'] += 1
    # (2)
    if Dd != S and Dd != F:
        bad('default-is-neither', 'without -f/-s the output is neither the snippet nor the complete rendering (%s)' % kind, 'vs snippet: ' + first_diff(S, Dd) + '\nvs complete: ' + first_diff(F, Dd))
    else:
        want_complete = has_neutral
        if S != F:
            if (Dd == F) != want_complete:
                bad('default-mode-wrong', 'default output is %s but the metadata (%s) calls for %s' % ('complete' if Dd == F else 'snippet', [k for k, _ in pairs], 'complete' if want_complete else 'snippet'), '')
    r.stats['relation2_checked'] += 1
    if has_neutral and S != F and rng.random() < 0.25:
        # the complete/snippet decision belongs to the document, not to the engine: the same engine converts this document (complete), then -- after the
        # caller replaced the text it shares with the engine -- the bare body, which carries no metadata: that second result must be the snippet of the body
        S0 = c.out(body, E['SNIPPET'])
        F0 = c.out(body, E['COMPLETE'])
        hist = [D.req_to_json('asan', 'ENGINE', 0, c.base, 0, 0 | (1 << 4), [src]),
                D.req_to_json('asan', 'ENGINE', D.FMT[fmt], 0, 0, 0 | (3 << 4), [b'']),
                D.req_to_json('asan', 'ENGINE', 0, 0, 0, 0 | (15 << 4), [body]),
                D.req_to_json('asan', 'ENGINE', D.FMT[fmt], 0, 0, 0 | (3 << 4), [b''])]
        rep = None
        for k, rq in enumerate(hist):
            rep = s.call('asan', *D.req_from_json(rq), history=hist[:k], crash_is_violation=False)
            r.evaluations += 1
            if rep is None:
                break
        if rep is not None:
            s.call('asan', 'ENGINE', 0, 0, 0, 0 | (9 << 4), [b''], crash_is_violation=False)
            r.stats['engine_reuse_mode_decisions_checked'] += 1
            if rep.status == 0 and S0 is not None and F0 is not None and S0 != F0 and rep.out != S0:
                r.violate('default-mode-wrong:%s:engine-reused' % fmt, 'an engine that first converted a document with metadata renders a following metadata-free text as %s' %
                          ('the complete document' if rep.out == F0 else 'something that is neither snippet nor complete document'), dict(requests=hist), core.show(src, 300) + '\nthen: ' + core.show(body, 200))
    if uses_vars:
        r.stats['documents_with_variable_substitution'] += 1
        if len(body) > 40:
            r.distinct.add(core.h64(src, fmt, base))
        return          # the body reads the metadata values here (a documented effect): relations 3-7 compare bodies across different metadata
    # (3) neutral keys never change the snippet
    if not has_ctl:
        S0 = c.out(body, E['SNIPPET'])
        if S0 is not None and S0 != S:
            bad('neutral-metadata-changes-body', 'adding metadata %s changed the snippet rendering of the body' % [k for k, _ in pairs], first_diff(S0, S))
        r.stats['relation3_checked'] += 1
    else:
        # same control keys, different neutral keys
        ctl = [p for p in pairs if p[0] in CONTROL]
        other = list(ctl)       # control keys keep their relative order (a later 'language' legitimately overrides an earlier 'quotes language')
        for p in neutral_pairs(rng, rng.randint(1, 3)):
            other.insert(rng.randrange(len(other) + 1), p)
        S2 = c.out(meta_block(other) + body, E['SNIPPET'])
        S1 = c.out(meta_block(ctl) + body, E['SNIPPET'])
        if S1 is not None and S2 is not None and (S1 != S2 or S1 != S):
            bad('neutral-metadata-changes-body', 'with the same control keys %s, different neutral keys changed the snippet rendering' % [k for k, _ in ctl], first_diff(S1, S2 if S1 != S2 else S))
        r.stats['relation3_checked'] += 1
    # (4) key order
    if len(pairs) > 1 and not kind.startswith('yaml'):
        p2 = list(pairs)
        rng.shuffle(p2)
        D2 = c.out(meta_block(p2) + body, 0)
        F2 = c.out(meta_block(p2) + body, E['COMPLETE'])
        if D2 is not None and F2 is not None and S != F and ((D2 == F2) != (Dd == F)):
            bad('key-order-changes-mode', 'reordering the metadata keys %s -> %s switched between snippet and complete' % ([k for k, _ in pairs], [k for k, _ in p2]), '')
        r.stats['relation4_checked'] += 1
    # (5) variables
    if rng.random() < 0.4:
        val = 'vword%d' % rng.randint(1000, 9999)
        vb = b'Start [%myvar] end.\n\n' + body
        S5 = c.out(meta_block([('My Var', val)]) + vb, E['SNIPPET'])
        S6 = c.out(b'Start ' + val.encode() + b' end.\n\n' + body, E['SNIPPET'])
        if S5 is not None and S6 is not None and S5 != S6:
            bad('variable-substitution', '[%myvar] does not render as the plain value would', first_diff(S6, S5))
        r.stats['relation5_checked'] += 1
    # (6) the metadata block is a block of its own: it ends at the first blank line, however that line is spelled, and a body that
    #     starts with a "Word: text" line stays body
    if pairs and not kind.startswith('yaml') and rng.random() < 0.4:
        lead = rng.choice([b'', b'', b'Note: first body line w9001 w9002\n\n', b'Remark: w9003\nsecond line w9004\n\n'])
        b2 = lead + body
        ref_s, ref_f = c.out(mb + b2, E['SNIPPET']), c.out(mb + b2, E['COMPLETE'])
        sep = rng.choice([b' ', b'\t', b'    ', b'    \t', b'  \t ', b' \t'])
        alt = mb[:-1] + sep + b'\n' + b2
        alt_s, alt_f = c.out(alt, E['SNIPPET']), c.out(alt, E['COMPLETE'])
        if None not in (ref_s, ref_f, alt_s, alt_f):
            if ref_s != alt_s:
                bad('blank-line-spelling-changes-body', 'a whitespace-only line (%r) after the metadata block instead of an empty one changed the snippet rendering' % sep, first_diff(ref_s, alt_s))
            elif ref_f != alt_f:
                bad('blank-line-spelling-changes-wrapper', 'a whitespace-only line (%r) after the metadata block instead of an empty one changed the complete rendering' % sep, first_diff(ref_f, alt_f))
            if lead and fmt == 'html' and b'w900' in lead:
                w = re.findall(rb'w900\d', lead)[0]
                if w not in alt_s:
                    bad('colon-led-body-line-lost', 'the body line %r after the metadata block is missing from the snippet' % lead[:30], core.show(alt_s, 300))
        r.stats['relation6_checked'] += 1
    # (7) the MMD Header / MMD Footer mechanism (what the command line tool runs before converting) acts on those two keys only: other keys,
    #     however similar their names, leave the text alone; and when present, the values are put before / after the body exactly once
    if rng.random() < 0.3:
        near = rng.sample(['MMD', 'M', 'MMD Head', 'MMD Foot', 'MMD Headers', 'MMDHeaderX', 'Header', 'Footer', 'MMD Footer Note', 'mmd', 'MMD-Header', 'X MMD Header'], rng.randint(1, 3))
        pr = [(k, 'near%d value' % j) for j, k in enumerate(near)] + neutral_pairs(rng, rng.randint(0, 2))
        rng.shuffle(pr)
        t7 = meta_block(pr) + body
        rep = s.call('asan', 'HEADFOOT', 0, 0, 0, 0, [t7], crash_is_violation=False)
        r.evaluations += 1
        r.stats['relation7_checked'] += 1
        if rep is not None and rep.status == 0 and rep.out != t7:
            r.violate('header-footer-pass-changes-text:similar-key', 'mmd_prepend_mmd_header/append_mmd_footer changed a text that has no MMD Header/Footer key (keys: %s)' % [k for k, _ in pr],
                      dict(requests=[D.req_to_json('asan', 'HEADFOOT', 0, 0, 0, 0, [t7])]), first_diff(t7, rep.out))
        hv, fv = 'HEADV%d' % rng.randint(100, 999), 'FOOTV%d' % rng.randint(100, 999)
        pr2 = pr + [('MMD Header', hv), ('MMD Footer', fv)]
        rng.shuffle(pr2)
        t8 = meta_block(pr2) + body
        rep = s.call('asan', 'HEADFOOT', 0, 0, 0, 0, [t8], crash_is_violation=False)
        r.evaluations += 1
        if rep is not None and rep.status == 0:
            o = rep.out
            if o.count(hv.encode()) != 2 or o.count(fv.encode()) != 2 or any(o.count(('near%d value' % j).encode()) != 1 for j in range(len(near))):
                r.violate('header-footer-pass:wrong-insertion', 'with MMD Header=%s and MMD Footer=%s the pass must add each value once (and nothing else): counts %d / %d' % (hv, fv, o.count(hv.encode()) - 1, o.count(fv.encode()) - 1),
                          dict(requests=[D.req_to_json('asan', 'HEADFOOT', 0, 0, 0, 0, [t8])]), core.show(o, 500))
    if len(body) > 40:
        r.distinct.add(core.h64(src, fmt, base))
    r.sets['metadata_kinds'].add(kind)
    return src


def work(job):
    seed, lo, hi = job
    r = core.JobResult()
    with core.Session(r) as s:
        for i in range(lo, hi):
            rng = core.job_rng(seed, ID, i)
            fmt = FORMATS[i % 4]
            src = check_case(r, s, rng, fmt)
            if i - lo < 1 and src:
                r.samples.append(dict(format=fmt, source=core.show(src, 300)))
    return r


# texts that do not start with a metadata block although a 'key: text' line comes early: nothing in them is metadata, so every line is body
# and the default output is the snippet
NOT_METADATA = [b'---\nplain text\nNote: marker1 is body\n\nBody marker2\n', b'***\nplain text\nNote: marker1 is body\n\nBody marker2\n',
                b'Intro line\nNote: marker1 is body\n\nBody marker2\n', b'---\n\nNote: marker1 is body\n\nBody marker2\n', b'# Head\nNote: marker1 is body\n\nBody marker2\n',
                b'```\nNote: marker1 is body\n```\n\nBody marker2\n']


def work_not_metadata(job):
    seed, = job
    r = core.JobResult()
    with core.Session(r) as s:
        for src in NOT_METADATA:
            for fmt in FORMATS:
                c = Ctx(r, s, fmt, D.EXT_CLI)
                S, F, Dd = c.out(src, E['SNIPPET']), c.out(src, E['COMPLETE']), c.out(src, 0)
                if S is None or F is None or Dd is None:
                    continue
                r.stats['documents_without_metadata_checked'] += 1
                r.distinct.add(('nm', src, fmt))
                if Dd != S:
                    r.violate('default-mode-wrong:%s:no-metadata' % fmt, 'a text without a metadata block is rendered as %s by default' % ('the complete document' if Dd == F else 'neither snippet nor complete document'),
                              dict(requests=list(c.reqs[-3:])), core.show(src, 200))
                for mk in (b'marker1', b'marker2'):
                    if mk not in S or mk not in F:
                        r.violate('body-line-taken-as-metadata:%s' % fmt, 'the line holding %s is missing from the %s rendering of a text that has no metadata block' % (mk.decode(), fmt), dict(requests=list(c.reqs[-3:])), core.show(src, 200))
                        break
    return r


def main():
    chk = core.Check(ID)
    n = chk.scale(8000, 150000)
    chk.rule = ('case i = f(VERIF_SEED, i): body (corpus document without its metadata, or generated sentinel document) x metadata block {none, control keys only, 1-5 '
                'arbitrary keys with reserved-character values, mixed, YAML-fenced} x {html, latex, beamer, memoir} x option variants; five relations evaluated per case '
                '(7-12 conversions); non-trivial = body longer than 40 bytes; distinct = distinct (source, format, options)')
    chk.rule = chk.rule + ' ; plus: fenced blocks of control keys, bodies that substitute metadata values as variables, the decision on a reused engine, and texts without metadata whose early key-like line must stay body'
    chk.assumptions = ['rendering-control keys: base/html/xhtml/latex/epub/odf header level, language, quotes language, latex mode (as process_metadata_stack and the docs list them)',
                       'bodies contain no [%var] or {{transclusion}} other than those the relation itself adds']
    chunk = max(20, n // 64)
    chk.run_jobs(work, [(chk.seed, lo, min(n, lo + chunk)) for lo in range(0, n, chunk)])
    chk.run_jobs(work_not_metadata, [(chk.seed,)])
    return chk.finish()
