"""C08 -- XML-based outputs are well-formed for every input.

Oracle: expat (strict, no DTD loading) on the OPML text, the flat OpenDocument text, the iThoughts
mapdata.xml, every XML member of ODT packages and the XML/XHTML members of EPUB packages.
Workload: valid UTF-8, control-free documents with XML-hostile material in every syntactic position.
"""
import io, zipfile
import re
import xml.parsers.expat as expat
from lib import core, slots, gen, drv as D

ID = 'C08'
HOSTILE = ['"', "'", '&', '<', '>', ']]>', '--', '<!--', '-->', '{>>', '<<}', '~>', '$', '\\\\(', '&amp;', '&lt;', '&copy;', '&nbsp;', '&#169;', '&#xA9;', '&bogus;', '&#0;', '&',
           '\\ ', '\\&', '\\<', '<b>', '</b>', '<br>', '<br/>', '<a href="x">', '</text:p>', '<![CDATA[', '<?xml', '?>', '%', '#', '=', '`', '*', '_', '[', ']', '(', ')', '{', '}',
           '|', ':', ';', '/', '\\', 'é', ' ', '中', '\U0001F600', 'x', 'word', ' ', '  ', '\t', "''", '``', '...', '---', '"quoted"', "it's", '<http://e.x/?a=1&b=2>', '&amp;amp;']


# "clean" cases: only material for which no pass-through is documented and no escaping site is recorded, so that the whole
# document is expected to be well-formed and no recorded finding can mask a new one (expat stops at the first error)
PASSTHROUGH = ('&copy;', '&nbsp;', '&bogus;', '&#0;', '&#169;', '&#xA9;', '&amp;', '&lt;', '&amp;amp;', '<b>', '</b>', '<br>', '<br/>', '<a href="x">', '</text:p>', '<![CDATA[', '<?xml', '?>', '<!--', '-->',
               '{>>', '<<}', '<http://e.x/?a=1&b=2>')
CLEAN = [a for a in HOSTILE if a not in PASSTHROUGH]
CLEAN_KINDS = [k for k in slots.ALL_KINDS if k not in ('image-title', 'image-alt', 'figure', 'link-attr', 'fenced-lang', 'html-inline', 'html-block', 'html-comment', 'raw-filter', 'critic-comment',
                                                        'meta-html-header')]


# text that looks like the *start or end* of markup but is not a complete construct: no pass-through is documented for it
HALF_MARKUP = ['<!--', '-->', '<?', '?>', '<![CDATA[', ']]>', '</', '< ', '<1', '<-', '&#', '&#x', '& ', '&x', '<!', '<!-', '--', '<a', '<a href=', 'b>', '/>']


NO_ANGLE = None
HALF_KINDS = None


def half_payload(half):
    def f(rng, kind):
        # no other angle bracket in the same payload: together with the half it would form a complete tag, which *is* passed through by design
        out = ''.join(rng.choice(NO_ANGLE) for _ in range(rng.randint(1, 3)))
        if kind in ('link-title', 'ref-title'):
            out = out.replace('"', "'")
        if kind in ('meta-key', 'meta-css', 'manual-label', 'superscript', 'subscript'):
            out = out.replace(' ', '').replace('\t', '')
        if half.startswith('&'):
            out = out.replace(';', ',')         # '&#x' + ... + ';' would spell a complete (bogus) character reference, which is passed through by design
        if rng.random() < 0.7:
            h = half
            if kind in ('link-url', 'autolink', 'email', 'meta-key', 'meta-css', 'manual-label', 'superscript', 'subscript'):
                h = h.replace(' ', '')
            out = rng.choice([h + out, out + h, out + h + out, h])
        return out
    return f


def _init_half():
    global NO_ANGLE, HALF_KINDS
    NO_ANGLE = [a for a in CLEAN if '<' not in a and '>' not in a]
    HALF_KINDS = [k for k in CLEAN_KINDS if k not in ('autolink', 'email', 'link-url')]


EDGE_CHARS = ['\u00e0', '\u2020', '\u00a0', '\u0160', '\u2026', '\u00ad', '\u00c0', '\u4e2d', '\U0001F600', '\u0420', '\u00e9']


def edge_payload(rng, kind):
    return rng.choice(EDGE_CHARS) * rng.randint(1, 2)


def clean_payload(rng, kind):
    out = ''.join(rng.choice(CLEAN) for _ in range(rng.randint(1, 4)))
    if kind in ('link-url', 'autolink', 'email', 'meta-key', 'meta-css', 'manual-label', 'superscript', 'subscript'):
        out = out.replace(' ', '').replace('\t', '')
    if kind in ('link-title', 'ref-title'):
        out = out.replace('"', "'")          # stays one title
    if kind in ('autolink', 'email'):
        out = out.replace('<', '').replace('>', '') or 'x'       # with the slot's own brackets these would spell a complete tag
    # atoms must not join into a complete tag ('<' + 'word' + '>'): that would be raw HTML, which is passed through by design
    out = re.sub(r'<(?=[A-Za-z/!?])', '< ', out)
    return out


def payload(rng, kind):
    out = ''.join(rng.choice(HOSTILE) for _ in range(rng.randint(1, 5)))
    if kind in ('link-url', 'autolink', 'email', 'meta-key', 'meta-css', 'manual-label', 'link-attr', 'fenced-lang', 'superscript', 'subscript'):
        out = out.replace(' ', '').replace('\t', '')
    return out


def wellformed(data):
    p = expat.ParserCreate()
    try:
        p.Parse(data, True)
        return None
    except expat.ExpatError as e:
        e.byte_index = p.ErrorByteIndex          # expat's column counts characters; the byte position is what the classifier needs
        return e


RAW_TAG = re.compile(rb'<(?:[A-Za-z/!?])')


def cause_of(data, err, off, src, kind, strict=False):
    """name the mechanism (stable key part): by-design passthrough of author-typed markup, or an escaping site"""
    msg = expat.ErrorString(err.code)
    near = data[max(0, off - 2):off + 24]
    if 'undefined entity' in msg:
        m = re.match(rb'&[A-Za-z][A-Za-z0-9]*;', data[off:off + 40])
        if m and m.group(0) not in src:
            return 'named-entity-written-by-the-library:%s' % m.group(0)[1:-1].decode()          # nobody typed it: not a pass-through
        return 'named-entity-passthrough'
    if 'invalid character number' in msg:
        return 'char-ref-passthrough'
    if data[off:off + 3] == b'<<}' or data[max(0, off - 1):off + 2] == b'<<}':
        return 'critic-comment-close-unescaped'
    if not strict and (RAW_TAG.search(src) or b'{=' in src or kind in ('raw-filter', 'html-inline', 'html-block', 'html-comment')):
        # raw HTML / XML typed by the author is copied into the output by design; the parser trips on it or on the tag that no longer matches
        return 'raw-markup-passthrough'
    # inside the alt/title attribute of an <img> that the payload itself spelled ('![' ... '](' around a slot): the recorded image-alt / image-title cause
    im = data.rfind(b'<img ', 0, off)
    if im >= 0 and b'/>' not in data[im:off] and kind not in ('image-alt', 'image-title', 'figure'):
        seg = data[im:off]
        if b' title="' in seg:
            kind = 'image-title'
        elif b' alt="' in seg:
            kind = 'image-alt'
    # inside a URL-carrying attribute value (the writers copy link and image destinations raw)
    q = data.rfind(b'"', 0, off)
    m = re.search(rb'(xlink:href|href|src)=$', data[max(0, q - 12):q]) if q > 0 else None
    if m and b'"' not in data[q + 1:off]:
        return 'url-attribute-unescaped:%s' % m.group(1).decode()
    if kind in ('image-alt', 'image-title', 'figure', 'link-attr', 'fenced-lang') and msg in ('mismatched tag', 'not well-formed (invalid token)'):
        # the HTML writer copies these attribute texts as typed (recorded): a '<' stops the parser inside the value ("invalid token"), a '">' ends the
        # tag early and the parser stops at the next closing tag instead ("mismatched tag") -- one cause, one key
        return 'escaping:not-well-formed-(invalid-token):%s' % kind
    return 'escaping:%s:%s' % (msg.replace(' ', '-'), kind)


def context_kind(data, err, sl):
    """slot kind whose sentinels surround the error position (stable key part)"""
    off = getattr(err, 'byte_index', -1)
    if off < 0:
        lines = data.split(b'\n')
        off = sum(len(l) + 1 for l in lines[:err.lineno - 1]) + err.offset
    best = None
    for s in sl:
        a = data.find(s['a'].encode())
        if 0 <= a <= off and (best is None or a > best[0]):
            best = (a, s['kind'])
    return best[1] if best else 'outside-slots', off


MEMBERS = {
    'epub': ('.xml', '.opf', '.xhtml'),
    'odt': ('.xml',),
    'itmz': ('.xml',),
}


def work(job):
    _init_half()
    seed, lo, hi = job
    r = core.JobResult()
    with core.Session(r) as s:
        for i in range(lo, hi):
            rng = core.job_rng(seed, ID, i)
            mode = rng.random()
            strict = 0.4 <= mode < 0.8          # clean / half-markup documents hold no complete raw construct: nothing is passed through by design
            if mode < 0.4:
                text, sl = slots.build(rng, payload)
            elif mode < 0.5:
                text, sl = slots.build(rng, clean_payload, kinds=CLEAN_KINDS, nslots=rng.randint(1, 4))
                r.stats['clean_documents'] += 1
            elif mode < 0.6:
                # byte-special characters (last byte 0xA0 / 0x85 / 0xAD ...) at the very start or end of a text position: where trimming cuts by bytes
                text, sl = slots.build(rng, edge_payload, kinds=slots.LEADING_KINDS, nslots=rng.randint(1, 4))
                r.stats['edge_position_documents'] += 1
            elif mode < 0.8:
                half = rng.choice(HALF_MARKUP)
                text, sl = slots.build(rng, half_payload(half), kinds=HALF_KINDS, nslots=1)
                r.stats['half_markup_documents'] += 1
                r.sets['half_markup_atoms'].add(half)
            else:
                from lib import gendoc
                text, sl = gendoc.random_document(rng), []
                text = ''.join(c for c in text if c >= ' ' or c in '\n\t')
            if rng.random() < 0.12:
                # rendering-control metadata with boundary values, and headings for it to act on
                ctl = rng.choice(['Base Header Level', 'HTML Header Level', 'ODF Header Level', 'LaTeX Header Level', 'Base Header Level'])
                text = '%s: %s\n' % (ctl, rng.choice(['-3', '-1', '0', '1', '2', '6', '7', '8', '99', '2147483647', 'x', ''])) + ('' if re.match(r'^[A-Za-z0-9][^\n]*:', text) else '\n') + text + \
                       '\n\n# Head one #\n\ntext\n\n## Head two ##\n\nmore\n\n# Head three #\n'
                r.stats['header_level_documents'] += 1
            src = text.encode('utf-8')
            ext = rng.choice([D.EXT_CLI, D.EXT_CLI, D.EXT_CLI & ~D.EXT['SMART'], D.EXT_CLI_COMPAT, D.EXT_CLI | D.EXT['COMPLETE'], D.EXT_CLI | D.EXT['CRITIC_ACCEPT'],
                              D.EXT_CLI | D.EXT['CRITIC_REJECT'], D.EXT_CLI | D.EXT['NO_LABELS'], D.EXT_CLI | D.EXT['PROCESS_HTML'], D.EXT_CLI | D.EXT['OBFUSCATE'], D.EXT_CLI & ~D.EXT['NOTES'],
                              D.EXT_CLI & ~D.EXT['CRITIC']])
            lang = rng.choice(gen.LANGS)
            for fname in ('opml', 'fodt', 'itmz', 'odt', 'epub'):
                fmt = D.FMT[fname]
                rq = D.req_to_json('asan', 'CONVERT', fmt, ext, lang, 1 | (1 << 4), [src])
                rep = s.call('asan', 'CONVERT', fmt, ext, lang, 1 | (1 << 4), [src], crash_is_violation=False)
                r.evaluations += 1
                if rep is None or rep.status:
                    r.stats['crashed/exited (C01/C02 territory)'] += 1
                    continue
                docs = []
                if fname in MEMBERS:
                    try:
                        z = zipfile.ZipFile(io.BytesIO(rep.out))
                        docs = [('%s:%s' % (fname, n.split('/')[-1]), z.read(n)) for n in z.namelist() if n.endswith(MEMBERS[fname])]
                    except Exception:
                        r.stats['package unreadable (C09 territory)'] += 1
                        continue
                else:
                    docs = [(fname, rep.out)]
                for name, data in docs:
                    r.stats['xml_documents_parsed'] += 1
                    e = wellformed(data)
                    if e is not None:
                        kind, off = context_kind(data, e, sl)
                        msg = expat.ErrorString(e.code)
                        r.violate('not-wellformed:%s:%s' % (name, cause_of(data, e, off, src, kind, strict)),
                                  '%s is not well-formed XML: %s at line %d col %d (slot kind %s)' % (name, msg, e.lineno, e.offset, kind),
                                  dict(requests=[rq], member=name), 'around: %s\nsource: %s' % (core.show(data[max(0, off - 80):off + 40], 200), core.show(src, 500)))
            r.distinct.add(core.h64(src, ext, lang))
            for x in sl:
                r.sets['slot_kinds'].add(x['kind'])
            if i - lo < 1:
                r.samples.append(dict(source=core.show(src, 300), ext=hex(ext)))
    return r


RAW_TAGS = ['html', 'latex', 'odt', 'epub', '*', 'beamer', 'memoir', 'fodt', 'opml']
RAW_ACCEPT = {'fodt': ('odt', 'fodt', '*'), 'odt': ('odt', 'fodt', '*'), 'epub': ('epub', 'html', '*')}       # {=format}: raw source for that format only ({=*}: all)
RAW_PAYLOADS = ['<br>', 'a & b', '<unclosed', '</text:p>', '<b>bold', '&nbsp;', '"q" <', ']]>']


def work_rawfilter(job):
    """raw source tagged for another format must not reach this format's XML (and whatever is left parses)"""
    seed, lo, hi = job
    r = core.JobResult()
    with core.Session(r) as s:
        for i in range(lo, hi):
            rng = core.job_rng(seed, ID, 'raw', i)
            tag = rng.choice(RAW_TAGS)
            pay = rng.choice(RAW_PAYLOADS)
            if rng.random() < 0.5:
                src = 'before zqa `%s`{=%s} zqb after\n' % (pay, tag)
            else:
                src = 'before zqa\n\n```{=%s}\n%s\n```\n\nzqb after\n' % (tag, pay)
            srcb = src.encode()
            refb = re.sub(r'`[^`]*`\{=[^}]*\}|```\{=[^}]*\}\n.*?\n```\n\n', '', src, flags=re.S).encode()      # the same document without the raw construct

            def members(fname, source):
                fmt = D.FMT[fname]
                rq = D.req_to_json('asan', 'CONVERT', fmt, D.EXT_CLI, 0, 1 | (1 << 4), [source])
                rep = s.call('asan', 'CONVERT', fmt, D.EXT_CLI, 0, 1 | (1 << 4), [source], crash_is_violation=False)
                r.evaluations += 1
                if rep is None or rep.status:
                    return None, rq
                if fname == 'fodt':
                    return [('fodt', rep.out)], rq
                try:
                    z = zipfile.ZipFile(io.BytesIO(rep.out))
                    return [('%s:%s' % (fname, n.split('/')[-1]), z.read(n)) for n in z.namelist() if n.endswith(('content.xml', 'main.xhtml'))], rq
                except Exception:
                    return None, rq
            for fname in ('fodt', 'odt', 'epub'):
                if tag in RAW_ACCEPT[fname]:
                    continue
                got, rq = members(fname, srcb)
                ref, _ = members(fname, refb)
                if not got or not ref:
                    continue
                for (name, data), (_, rdata) in zip(got, ref):
                    r.stats['raw_filter_members_checked'] += 1
                    a, b, ra, rb = data.find(b'zqa'), data.find(b'zqb'), rdata.find(b'zqa'), rdata.find(b'zqb')
                    if min(a, b, ra, rb) < 0:
                        continue
                    seg, rseg = re.sub(rb'\s+', b' ', data[a:b]), re.sub(rb'\s+', b' ', rdata[ra:rb])
                    if seg != rseg:
                        r.violate('raw-filter-leak:%s:%s' % (name, tag), 'raw source tagged {=%s} changed %s: %s (without the construct: %s)' % (tag, name, core.show(seg, 160), core.show(rseg, 120)),
                                  dict(requests=[rq]), core.show(srcb, 200))
            r.distinct.add(core.h64('raw', src))
            r.sets['raw_filter_tags'].add(tag)
    return r


IMG_URLS = {
    'empty-url': [''],
    'plain-url': ['pic.png', 'dir/pic.jpeg', 'http://e.x/i.png', 'p'],
    'query-after-last-dot': ['render/chart.png?rev=3&size=large', 'c.p&g', "c.p'g", 'a.b?x=<1', 'x.png?q="1"', 'i.j>k'],
    'special-before-last-dot': ['a&b.png', "a'b.png", 'a<b.png', 'a>b.png', 'http://e.x/?a=1&b=2&c.png'],
    'no-dot': ['a&b', "it's", 'p?a=1&b=2', '#frag&x'],
    'angle-url': ['<a b.png>', '<a&b c.png>'],
}
IMG_ATTR = {
    'none': [''],
    'plain-dimension': ['width="100px"', 'height="40" width="30"', 'width=50%', 'width="auto"', 'height="2cm"'],
    'lt-in-dimension': ['width="1<0px"', 'height="1<0" width="20px"'],
    'amp-in-dimension': ['width="2&3"', 'height="a&b" width="c&d"'],
    'quote-in-dimension': ["width='1\"0px'", "width=\"4'5\""],
    'gt-in-dimension': ['width="3>2px"'],
    'other-attribute': ['class="a&b"', 'id="x<y"', 'data-x="]]>"'],
}


def work_images(job):
    """images (inline, figure, by reference) whose destination or dimension attributes hold XML-special characters or nothing at all:
    one unusual feature per document, so that the key names it; alt text and titles are plain words here (their escaping is judged in work())"""
    seed, lo, hi = job
    r = core.JobResult()
    with core.Session(r) as s:
        for i in range(lo, hi):
            rng = core.job_rng(seed, ID, 'img', i)
            if rng.random() < 0.5:
                uf, af = rng.choice(sorted(IMG_URLS)), rng.choice(['none', 'none', 'plain-dimension'])
            else:
                uf, af = rng.choice(['plain-url', 'plain-url', 'empty-url']), rng.choice(sorted(IMG_ATTR))
            url, attr = rng.choice(IMG_URLS[uf]), rng.choice(IMG_ATTR[af])
            title = rng.choice(['', ' "A title"'])
            form = rng.choice(['inline', 'figure', 'reference', 'reference-figure', 'in-list', 'in-table', 'link-around', 'in-heading'])
            dest = url + title + ((' ' + attr) if attr else '')
            if form == 'inline':
                text = 'Before ![alt w1](%s) after.\n' % dest
            elif form == 'figure':
                text = 'Para.\n\n![caption w1](%s)\n\nAfter.\n' % dest
            elif form == 'reference':
                text = 'Before ![alt w1][pic] after.\n\n[pic]: %s\n' % dest
            elif form == 'reference-figure':
                text = '![caption w1][pic]\n\nAfter.\n\n[pic]: %s\n' % dest
            elif form == 'in-list':
                text = '* item ![alt w1](%s)\n* two\n' % dest
            elif form == 'in-table':
                text = '| h | i |\n|---|---|\n| ![alt w1](%s) | z |\n' % dest
            elif form == 'in-heading':
                text = '# Head ![alt w1](%s)\n\ntext\n' % dest          # the heading is repeated in EPUB's navigation document, which does not collect assets
            else:
                text = 'Before [![alt w1](%s)](http://e.x/) after.\n' % dest
            if form.startswith('reference') and url == '':
                continue            # "[pic]:" with nothing after it is not a definition
            feature = uf if af in ('none', 'plain-dimension') else (af if uf == 'plain-url' else uf + '+' + af)
            if rng.random() < 0.3:
                text += '\n![second](other.png)\n'
            src = text.encode('utf-8')
            ext = rng.choice([D.EXT_CLI, D.EXT_CLI, D.EXT_CLI | D.EXT['COMPLETE'], D.EXT_CLI_COMPAT, D.EXT_CLI & ~D.EXT['SMART']])
            for fname in ('fodt', 'odt', 'epub', 'opml', 'itmz'):
                fmt = D.FMT[fname]
                rq = D.req_to_json('asan', 'CONVERT', fmt, ext, 0, 1 | (1 << 4), [src])
                rep = s.call('asan', 'CONVERT', fmt, ext, 0, 1 | (1 << 4), [src], crash_is_violation=False)
                r.evaluations += 1
                if rep is None or rep.status:
                    r.stats['crashed/exited (C01/C02 territory)'] += 1
                    continue
                if fname in MEMBERS:
                    try:
                        z = zipfile.ZipFile(io.BytesIO(rep.out))
                        docs = [('%s:%s' % (fname, n.split('/')[-1]), z.read(n)) for n in z.namelist() if n.endswith(MEMBERS[fname])]
                    except Exception:
                        r.stats['package unreadable (C09 territory)'] += 1
                        continue
                else:
                    docs = [(fname, rep.out)]
                for name, data in docs:
                    r.stats['image_xml_documents_parsed'] += 1
                    e = wellformed(data)
                    if e is not None:
                        off = getattr(e, 'byte_index', 0)
                        # the HTML writer copies image attributes into the tag as typed (recorded for link attributes, titles and alt text too): one key for that cause
                        fkey = 'attribute-value-as-typed' if name in ('epub:main.xhtml', 'epub:nav.xhtml') and af not in ('none', 'plain-dimension', 'gt-in-dimension') else feature
                        r.violate('not-wellformed:%s:image:%s' % (name, fkey), '%s is not well-formed XML: %s at line %d (image %s, destination %r)' % (name, expat.ErrorString(e.code), e.lineno, form, dest),
                                  dict(requests=[rq], member=name), 'around: %s\nsource: %s' % (core.show(data[max(0, off - 100):off + 40], 240), core.show(src, 300)))
            r.distinct.add(core.h64('img', src, ext))
            r.sets['image_features'].add(feature)
            r.sets['image_forms'].add(form)
    return r


SPECIAL_KEYS = ['Language', 'Date', 'UUID', 'Author', 'Title', 'Copyright', 'Keywords', 'CSS', 'Quotes Language', 'BibTeX', 'Biblio Style', 'LaTeX Mode', 'LaTeX Input', 'LaTeX Config',
                'Transclude Base', 'Base Header Level', 'EPUB Header Level', 'Affiliation', 'Subtitle', 'Revision', 'My Own Key', 'lang', 'xml:lang']
KEY_VALUES = ['d"e', 'a<b', 'x&y', "it's", 'p>q', ']]>', '<!--', '&#', '&bogus;x', 'a"b<c&d>e', '"', '<', '&', 'en"><x', 'é"ü', '2020-01-01" x="', 'plain']


def work_metakeys(job):
    """metadata keys that the writers treat specially (language, date, uuid, author, css ...) with values that hold XML-special characters:
    each writer copies them into its own elements and attributes (<html lang=...>, dc:language, dcterms:modified, office:meta ...).
    Keys documented as raw passthrough (HTML Header, XHTML Header, ODF Header, HTML Footer) are not used here."""
    seed, lo, hi = job
    r = core.JobResult()
    with core.Session(r) as s:
        for i in range(lo, hi):
            rng = core.job_rng(seed, ID, 'metakeys', i)
            key = SPECIAL_KEYS[i % len(SPECIAL_KEYS)]
            val = rng.choice(KEY_VALUES)
            others = ''.join('%s: %s\n' % (k, rng.choice(['plain', 'Some Value', '2021'])) for k in rng.sample(SPECIAL_KEYS, rng.randint(0, 2)) if k != key)
            text = ('Title: Doc\n' if key != 'Title' and rng.random() < 0.5 else '') + others + '%s: %s\n\n# Head #\n\nBody text.\n' % (key, val)
            src = text.encode('utf-8')
            ext = rng.choice([D.EXT_CLI, D.EXT_CLI | D.EXT['COMPLETE'], D.EXT_CLI & ~D.EXT['SMART'], D.EXT_CLI | D.EXT['SNIPPET']])
            lang = rng.choice(gen.LANGS)
            for fname in ('epub', 'odt', 'fodt', 'opml', 'itmz'):
                fmt = D.FMT[fname]
                rq = D.req_to_json('asan', 'CONVERT', fmt, ext, lang, 1 | (1 << 4), [src])
                rep = s.call('asan', 'CONVERT', fmt, ext, lang, 1 | (1 << 4), [src], crash_is_violation=False)
                r.evaluations += 1
                if rep is None or rep.status:
                    r.stats['crashed/exited (C01/C02 territory)'] += 1
                    continue
                if fname in MEMBERS:
                    try:
                        z = zipfile.ZipFile(io.BytesIO(rep.out))
                        docs = [('%s:%s' % (fname, n.split('/')[-1]), z.read(n)) for n in z.namelist() if n.endswith(MEMBERS[fname])]
                    except Exception:
                        r.stats['package unreadable (C09 territory)'] += 1
                        continue
                else:
                    docs = [(fname, rep.out)]
                for name, data in docs:
                    r.stats['metakey_xml_documents_parsed'] += 1
                    e = wellformed(data)
                    if e is not None:
                        off = getattr(e, 'byte_index', 0)
                        r.violate('not-wellformed:%s:metadata-value:%s' % (name, key.lower().replace(' ', '')), '%s is not well-formed XML: %s at line %d (metadata %s: %s)' % (name, expat.ErrorString(e.code), e.lineno, key, val),
                                  dict(requests=[rq], member=name), 'around: %s\nsource: %s' % (core.show(data[max(0, off - 100):off + 40], 240), core.show(src, 300)))
            r.distinct.add(core.h64('mk', src, ext, lang))
            r.sets['special_metadata_keys'].add(key)
    return r


ADDR_ATOMS = ['ü', 'é', '中', '\U0001F600', 'ß', '&', "'", '"', '%', '+', '-', '_', 'x', '9', '#', ';', '=']


def work_addresses(job):
    """autolinked e-mail addresses and URLs whose host part holds characters outside ASCII or XML-special ones (the HTML writer obfuscates e-mail
    addresses character by character into numeric references)"""
    seed, lo, hi = job
    r = core.JobResult()
    with core.Session(r) as s:
        for i in range(lo, hi):
            rng = core.job_rng(seed, ID, 'addr', i)
            host = 'b' + ''.join(rng.choice(ADDR_ATOMS) for _ in range(rng.randint(1, 5))) + 'cher.example'
            # atoms must not join into something that reads as an entity ('&' 'x' ';'): an author-typed entity is passed through by design
            host = re.sub(r'&(?=[A-Za-z0-9#]+;)', '&-', host)
            form = rng.choice(['Write to <info@%s> today.\n', '# Contact <info@%s> #\n\ntext\n', '* item <mailto:info@%s>\n', 'See <http://%s/p?a=1&b=2> here.\n', '| a | <info@%s> |\n|---|---|\n| c | d |\n',
                               'Cited [p. %s][#foo].\n\n[#foo]: Author. *Title*.\n', 'Again [%s][#foo] and [%s][#foo].\n\n[#foo]: Author.\n',
                               'A brace pair {=%s} that follows no code span is text.\n', 'term [?g]\n\n[?g]: gloss {=%s<} here\n'])
            form = form.replace('[%s][#foo] and [%s]', '[%s][#foo] and [x %s]') if form.count('%s') == 2 else form
            src = (form % ((host,) * form.count('%s'))).encode('utf-8')
            ext = rng.choice([D.EXT_CLI, D.EXT_CLI | D.EXT['OBFUSCATE'], D.EXT_CLI | D.EXT['COMPLETE'], D.EXT_CLI_COMPAT])
            for fname in ('epub', 'fodt', 'odt', 'opml', 'itmz'):
                fmt = D.FMT[fname]
                rq = D.req_to_json('asan', 'CONVERT', fmt, ext, 0, 1 | (1 << 4), [src])
                rep = s.call('asan', 'CONVERT', fmt, ext, 0, 1 | (1 << 4), [src], crash_is_violation=False)
                r.evaluations += 1
                if rep is None or rep.status:
                    continue
                if fname in MEMBERS:
                    try:
                        z = zipfile.ZipFile(io.BytesIO(rep.out))
                        docs = [('%s:%s' % (fname, n.split('/')[-1]), z.read(n)) for n in z.namelist() if n.endswith(MEMBERS[fname])]
                    except Exception:
                        continue
                else:
                    docs = [(fname, rep.out)]
                for name, data in docs:
                    r.stats['address_xml_documents_parsed'] += 1
                    e = wellformed(data)
                    if e is not None:
                        off = getattr(e, 'byte_index', 0)
                        r.violate('not-wellformed:%s:autolink-address' % name, '%s is not well-formed XML: %s at line %d (autolinked address with host %r)' % (name, expat.ErrorString(e.code), e.lineno, host),
                                  dict(requests=[rq], member=name), 'around: %s\nsource: %s' % (core.show(data[max(0, off - 100):off + 40], 240), core.show(src, 200)))
            r.distinct.add(core.h64('addr', src, ext))
    return r


def main():
    chk = core.Check(ID)
    n = chk.scale(12000, 300000)
    chk.rule = ('document i = f(VERIF_SEED, i): slot documents (3-10 of %d syntactic positions) filled with XML-hostile atoms (quotes, & < >, ]]>, comment and CDATA markers, '
                'named/numeric/bogus entities, escaped characters, raw tags, CriticMarkup and math delimiters, multi-byte) or generated documents; each rendered to opml, fodt, '
                'itmz, odt, epub; every XML/XHTML member parsed by expat; distinct = distinct (source, ext, lang)' % len(slots.ALL_KINDS))
    chk.rule = chk.rule + ' ; plus dedicated workloads: images (empty / query / special destinations, hostile dimension attributes, 7 positions), specially treated metadata keys with XML-special values, autolinked addresses and citation locators, raw-source filters'
    chk.assumptions = ['sources are valid UTF-8 without C0/C1 controls other than tab and line breaks, as the property requires', 'expat does not load DTDs: only the five XML entities are defined']
    chunk = max(20, n // 64)
    chk.run_jobs(work, [(chk.seed, lo, min(n, lo + chunk)) for lo in range(0, n, chunk)])
    nr = chk.scale(640, 8000)
    chk.run_jobs(work_rawfilter, [(chk.seed, lo, min(nr, lo + 40)) for lo in range(0, nr, 40)])
    ni = chk.scale(1600, 30000)
    chk.run_jobs(work_images, [(chk.seed, lo, min(ni, lo + 50)) for lo in range(0, ni, 50)])
    na = chk.scale(480, 9000)
    chk.run_jobs(work_addresses, [(chk.seed, lo, min(na, lo + 30)) for lo in range(0, na, 30)])
    nk = chk.scale(1150, 23000)
    chk.run_jobs(work_metakeys, [(chk.seed, lo, min(nk, lo + 46)) for lo in range(0, nk, 46)])
    return chk.finish()
