"""C07 -- bounded stack and linear cost on nested and repeated input.

harness/cost.c runs one conversion per child process under an 8 MiB stack limit.
 * stack: every nesting construct at 10^2..10^6 bytes of openers (closed and unclosed) through the
   writers on the shipped-flags build (any signal = violation) and on the basic-block-counting build,
   whose callback records the lowest stack address: the high-water mark must plateau.
 * cost: executed basic blocks (exact, load-independent) for d^k, k = 1,2,4,..: the log-log slope
   between successive doublings must stay near 1 once the run is large enough; the published
   pathological patterns at N = 2^10..2^16.
"""
import os, re, math, resource, subprocess, signal
from lib import core, gen, build, drv as D

ID = 'C07'
STACK = 8 * 1024 * 1024
SLOPE_MAX = 1.35
MIN_BLOCKS = 1000000

# (name, opener, closer, filler)
CONSTRUCTS = [
    ('bracket', '[', ']', 'a'), ('image', '![', ']', 'a'), ('footnote', '[^', ']', 'a'), ('citation', '[#', ']', 'a'), ('paren', '(', ')', 'a'), ('angle', '<', '>', 'a'),
    ('double-brace', '{{', '}}', 'a'), ('brace', '{', '}', 'a'), ('star-emph', '*a ', ' a*', 'b'), ('ul-emph', '_a ', ' a_', 'b'), ('strong', '**', '**', 'a'),
    ('backtick', '`', '`', 'a'), ('dollar', '$', '$', 'a'), ('dquote', '"', '"', 'a'), ('squote', "'", "'", 'a'), ('caret', '^', '^', 'a'), ('tilde', '~', '~', 'a'),
    ('blockquote', '> ', '', 'a'), ('bullet-nest', None, None, None), ('enum-nest', None, None, None), ('quote-in-list', None, None, None),
    ('critic-add', '{++', '++}', 'a'), ('critic-del', '{--', '--}', 'a'), ('critic-hi', '{==', '==}', 'a'), ('critic-com', '{>>', '<<}', 'a'), ('critic-sub', '{~~', '~>x~~}', 'a'),
    ('math-paren', '\\\\(', '\\\\)', 'a'), ('link-chain', '[a](', ')', 'b'), ('emph-alternate', '*_', '_*', 'a'), ('html-open', '<div>', '</div>', 'a'),
    ('deflist-nest', None, None, None), ('footnote-in-footnote', None, None, None),
    # notes and glossary entries written in place, each one holding fifty levels of another construct: a writer that gives every note its own
    # depth budget never reaches its limit, while the nest as a whole is far deeper than any stack allows
    ('note-with-parens', '[^a ' + '(' * 50, ')' * 50 + ']', 'x'), ('note-with-brackets', '[^a ' + '[' * 50, ']' * 51, 'x'), ('note-labelled', '[^a ', ']', 'x'),
    ('glossary-with-parens', '[?(t) ' + '(' * 50, ')' * 50 + ']', 'x'), ('citation-with-parens', '[#a ' + '(' * 30, ')' * 30 + ']', 'x'),
]


def make_input(name, o, c, fill, nbytes, closed):
    if o is not None:
        n = max(1, nbytes // len(o))
        return (o * n + fill + ((c * n) if closed and c else '') + '\n').encode()
    # indentation-based nesting: the text is quadratic in the depth, so the size parameter is read as depth x 33 here
    # (1000 -> 30 levels, 10^4 -> 300, 3*10^4 -> 900, 10^5 -> 3000: both sides of the 1000-level limit)
    if name == 'bullet-nest':
        depth = max(1, nbytes // 33)
        return ''.join('\t' * i + '- a\n' for i in range(depth)).encode()
    if name == 'enum-nest':
        depth = max(1, nbytes // 33)
        return ''.join('\t' * i + '1. a\n' for i in range(depth)).encode()
    if name == 'quote-in-list':
        n = max(1, nbytes // 4)
        return (('> - ' * n) + 'a\n').encode()
    if name == 'deflist-nest':
        depth = max(1, nbytes // 33)
        return ''.join('\t' * i + 'T\n' + '\t' * i + ':   d\n\n' for i in range(depth)).encode()
    if name == 'footnote-in-footnote':
        n = max(1, nbytes // 28)
        return (''.join('[^f%d]: x[^f%d]\n\n' % (i, i + 1) for i in range(n)) + 'start[^f0]\n').encode()
    raise ValueError(name)


def run_cost(variant, fmt, ext, data, timeout=600):
    exe = build.build(variant, ('cost',))['cost']

    def lim():
        resource.setrlimit(resource.RLIMIT_STACK, (STACK, STACK))
    env = dict(os.environ, ASAN_OPTIONS='abort_on_error=1:detect_leaks=0:detect_stack_use_after_return=0', UBSAN_OPTIONS='print_stacktrace=1:halt_on_error=1:abort_on_error=1')
    try:
        p = subprocess.run([exe, str(fmt), str(ext)], input=data, stdout=subprocess.PIPE, stderr=subprocess.PIPE, preexec_fn=lim, env=env, timeout=timeout)
    except subprocess.TimeoutExpired:
        return dict(rc='timeout')
    m = re.search(rb'BLOCKS (\d+) STACK (\d+) OUTLEN (\d+) INLEN (\d+)', p.stdout)
    res = dict(rc=p.returncode, err=p.stderr.decode(errors='replace')[:3000])
    if m:
        res.update(blocks=int(m.group(1)), stack=int(m.group(2)), outlen=int(m.group(3)), inlen=int(m.group(4)))
    return res


PROLOGUE = b'Title: t\n\n{{TOC}}\n\n# head\n\n[>AB]: abbreviation\n\n[?gl]: glossary term\n\n[^fn]: note AB\n\n[#ci]: citation\n\nAB gl x[^fn] y[#ci]\n\n'


def work_stack(job):
    seed, idx, sizes, fmts, big = job
    r = core.JobResult()
    name, o, c, fill = CONSTRUCTS[idx]
    rng = core.job_rng(seed, ID, 'stack', idx)
    hw = {}
    import time
    for closed in (True, False):
        if o is None and not closed:
            continue
        budget = time.time() + (240 if big > 100000 else 12)
        for nbytes in sizes:
            if time.time() > budget:
                # deep *balanced* nesting may cost more than linear time (not promised); the depth limits are 1000 levels, far below what was run
                r.stats['sizes skipped because earlier sizes used the time budget'] += 1
                r.sets['constructs_cut_short_by_cost'].add('%s:%s' % (name, 'closed' if closed else 'unclosed'))
                break
            data = make_input(name, o, c, fill, nbytes, closed)
            t_run = time.time()
            for fmt in fmts:
                tag = '%s:%s:%s' % (name, 'closed' if closed else 'unclosed', D.FMT_NAME[fmt])
                case = dict(construct=name, closed=closed, bytes=nbytes, fmt=fmt, input_head=core.show(data[:80]))
                res = run_cost('plain', fmt, D.EXT_CLI, data, timeout=300 if big > 100000 else 45)
                r.evaluations += 1
                r.stats['child_runs'] += 1
                if res['rc'] == 'timeout':
                    r.stats['runs over the per-run time limit (cost of balanced nesting, not judged)'] += 1
                    budget = 0
                    break
                if res['rc'] != 0:
                    sig = signal.Signals(-res['rc']).name if isinstance(res['rc'], int) and res['rc'] < 0 else 'rc%s' % res['rc']
                    r.violate('crash:%s:%s' % (sig, name), '%s with %d bytes of openers: child ended with %s under an 8 MiB stack (shipped flags)' % (tag, nbytes, sig), case, res.get('err'))
                    continue
                r.distinct.add((name, closed, nbytes, fmt))
                r.sets['depths_in_bytes_completed'].add(nbytes)
            if budget == 0:
                break
            # stack high-water on the instrumented build (html only: the parser/pairing stages dominate)
            res = run_cost('cov', D.FMT['html'], D.EXT_CLI, data, timeout=300 if big > 100000 else 60)
            r.evaluations += 1
            if isinstance(res.get('rc'), int) and res['rc'] == 0 and 'stack' in res:
                hw[(closed, nbytes)] = res['stack']
                r.stats['stack_highwater_samples'] += 1
                r.sets['stack_highwater_kib'].add(res['stack'] // 1024)
            elif res['rc'] != 'timeout' and res['rc'] != 0:
                sig = signal.Signals(-res['rc']).name if isinstance(res['rc'], int) and res['rc'] < 0 else 'rc%s' % res['rc']
                r.violate('crash:%s:%s' % (sig, name), '%s/%s with %d bytes: instrumented child ended with %s' % (name, 'closed' if closed else 'unclosed', nbytes, sig),
                          dict(construct=name, closed=closed, bytes=nbytes, fmt=0), res.get('err'))
        # plateau: the built-in limits are 1000 levels, so the mark must stop growing long before the largest size
        ks = sorted(n for (cl, n) in hw if cl == closed)
        if len(ks) >= 2:
            small, large = ks[-2], ks[-1]
            # the plateau can only be judged between two sizes that are both beyond the depth limits (1000 levels): when the time budget (machine
            # load) cut the series short, the two largest sizes left may both be below them, where the stack legitimately still grows with depth
            if small < (10000 if o is not None else 40000):
                r.stats['stack plateau not judged: series cut short by the time budget'] += 1
                continue
            if hw[(closed, large)] > 2 * hw[(closed, small)] + 65536:
                r.violate('stack-grows:%s' % name, '%s (%s): stack high-water %d KiB at %d bytes vs %d KiB at %d bytes -- still growing with depth' %
                          (name, 'closed' if closed else 'unclosed', hw[(closed, large)] // 1024, large, hw[(closed, small)] // 1024, small),
                          dict(construct=name, closed=closed, sizes=[small, large], highwater=[hw[(closed, small)], hw[(closed, large)]]))
    # the same nest in a document that switches on the optional tree passes (abbreviation / glossary search, notes, TOC, metadata)
    if name.startswith('critic') and sizes:
        # -a / -r: the text-level accept / reject pass walks the same nest
        for flag, fname in ((D.EXT['CRITIC_ACCEPT'], 'accept'), (D.EXT['CRITIC_REJECT'], 'reject')):
            for closed in (True, False):
                nb = max(sizes[-1], 1000000)         # frames of this pass are small: go deep
                data = make_input(name, o, c, fill, nb, closed)
                res = run_cost('plain', D.FMT['html'], D.EXT_CLI | flag, data, timeout=300)
                r.evaluations += 1
                r.stats['child_runs_critic_prepass'] += 1
                if res['rc'] != 'timeout' and res['rc'] != 0:
                    sig = signal.Signals(-res['rc']).name if isinstance(res['rc'], int) and res['rc'] < 0 else 'rc%s' % res['rc']
                    r.violate('crash:%s:%s:%s' % (sig, name, fname), '%s (%s) with %d bytes of openers through the %s pass: child ended with %s under an 8 MiB stack' %
                              (name, 'closed' if closed else 'unclosed', nb, fname, sig), dict(construct=name, closed=closed, bytes=nb, fmt=0, ext=D.EXT_CLI | flag), res.get('err'))
                elif res['rc'] == 0:
                    r.distinct.add((name, fname, closed))
    done = sorted(n for (cl, n) in hw if cl)
    if done:
        nbytes = done[-1]
        data = PROLOGUE + make_input(name, o, c, fill, nbytes, True)
        res = run_cost('cov', D.FMT['html'], D.EXT_CLI, data, timeout=300 if big > 100000 else 60)
        r.evaluations += 1
        r.stats['child_runs_with_prologue'] += 1
        if isinstance(res.get('rc'), int) and res['rc'] == 0 and 'stack' in res:
            r.distinct.add((name, 'prologue', nbytes))
            base = hw[(True, nbytes)]
            r.sets['prologue_stack_ratio_x10'].add(int(10 * res['stack'] / max(1, base)))
            if res['stack'] > 2 * base + 65536:
                r.violate('stack-grows:%s:with-abbreviations' % name, '%s (%d bytes) after the prologue: stack high-water %d KiB vs %d KiB for the same nest alone -- an optional pass recurses without the depth limit' %
                          (name, nbytes, res['stack'] // 1024, base // 1024), dict(construct=name, closed=True, bytes=nbytes, highwater=[base, res['stack']], prologue=True))
        elif res['rc'] != 'timeout' and res['rc'] != 0:
            sig = signal.Signals(-res['rc']).name if isinstance(res['rc'], int) and res['rc'] < 0 else 'rc%s' % res['rc']
            r.violate('crash:%s:%s:with-abbreviations' % (sig, name), '%s closed with %d bytes after a prologue defining an abbreviation, glossary term, note and TOC: child ended with %s' % (name, nbytes, sig),
                      dict(construct=name, closed=True, bytes=nbytes, fmt=0, prologue=True), res.get('err'))
    # recursive token_tree_free exists only without the pool
    data = make_input(name, o, c, fill, big, True)
    res = run_cost('asan-nopool', D.FMT['html'], D.EXT_CLI, data, timeout=120)
    r.evaluations += 1
    if res['rc'] == 'timeout':
        r.stats['no-pool runs over 120 s (cost, not judged)'] += 1
    if res['rc'] not in (0, 'timeout'):
        key = D.sanitizer_key(res.get('err', ''), res['rc'] if isinstance(res['rc'], int) else None)
        r.violate('nopool:%s:%s' % (key, name), '%s with %d bytes on the no-pool ASan build: %s' % (name, big, key), dict(construct=name, bytes=big, variant='asan-nopool'), res.get('err'))
    if o is not None:
        # ... and with the shipped optimisation level: frames are small, so go much deeper (1.2 MB of openers)
        data = make_input(name, o, c, fill, 1200000, True)
        res = run_cost('plain-nopool', D.FMT['html'], D.EXT_CLI, data, timeout=120)
        r.evaluations += 1
        r.stats['child_runs_nopool_deep'] += 1
        if res['rc'] not in (0, 'timeout'):
            sig = signal.Signals(-res['rc']).name if isinstance(res['rc'], int) and res['rc'] < 0 else 'rc%s' % res['rc']
            r.violate('nopool:crash:%s:%s' % (sig, name), '%s with 1200000 bytes of openers on the no-pool build (shipped flags, 8 MiB stack): child ended with %s' % (name, sig),
                      dict(construct=name, bytes=1200000, variant='plain-nopool'), res.get('err'))
        elif res['rc'] == 0:
            r.distinct.add((name, 'nopool-deep'))
    if idx == 0:
        r.samples.append(dict(construct=name, input=core.show(make_input(name, o, c, fill, 40, True)), highwater_bytes={str(k): v for k, v in hw.items()}))
    return r


RATIO_MAX = 4.0          # cost(d^k) <= RATIO_MAX * (k / k0) * cost(d^k0)
TAIL_SLOPE_MAX = 1.5     # and the last two doublings must not both be steeper than this
BASE_BLOCKS = 300000     # k0 = first k whose run is large enough for fixed start-up cost not to matter


def judge_series(points):
    """points: [(k, blocks, outlen)] sorted by k.  Returns (verdict or None, numbers).  The property is
    cost(d^k) <= c*k*cost(d): a bounded ratio, not a bound on every local slope (the pairing code switches
    strategy at size thresholds, which makes the curve piecewise)."""
    big = [p for p in points if p[1] >= BASE_BLOCKS]
    if len(big) < 3:
        return None, dict(judged=False)
    k0, b0, o0 = big[0]
    k1, b1, o1 = big[-1]
    scale = max(k1 / k0, (o1 / o0) if o0 else 1.0)          # work must be proportional to input plus output
    ratio = (b1 / b0) / scale
    tail = []
    for (ka, ba, oa), (kb, bb, ob) in zip(big[-3:], big[-2:]):
        g = max(kb / ka, (ob / oa) if oa else 1.0)
        tail.append(math.log(bb / ba) / math.log(g) if g > 1 else 0.0)
    info = dict(judged=True, k0=k0, k1=k1, ratio=round(ratio, 3), tail_slopes=[round(t, 3) for t in tail])
    if ratio > RATIO_MAX:
        return 'ratio', info
    if len(tail) == 2 and min(tail) > TAIL_SLOPE_MAX and b1 >= 5000000:
        return 'tail', info
    return None, info


def work_limit_hits(job):
    """the depth limits are per nest: a document whose blocks hit a limit more than 1000 times must still survive one very deep nest
    afterwards (the guards' counters have to come back to zero after every hit)"""
    seed, idx, hits, deep = job
    r = core.JobResult()
    name, o, c, fill = CONSTRUCTS[idx]
    unit = make_input(name, o, c, fill, 1100 * len(o), True).decode() + '\n'
    data = (unit * hits).encode() + make_input(name, o, c, fill, deep, True)
    for fmt in (D.FMT['html'], D.FMT['latex'], D.FMT['fodt']):
        res = run_cost('plain', fmt, D.EXT_CLI, data, timeout=300)
        r.evaluations += 1
        r.stats['child_runs_limit_hits'] += 1
        if res['rc'] == 'timeout':
            r.stats['runs over the per-run time limit (cost of balanced nesting, not judged)'] += 1
            continue
        if res['rc'] != 0:
            sig = signal.Signals(-res['rc']).name if isinstance(res['rc'], int) and res['rc'] < 0 else 'rc%s' % res['rc']
            r.violate('crash:%s:%s:after-limit-hits' % (sig, name), '%d blocks of %s nested 1100 deep, then one nest of %d bytes, %s: child ended with %s under an 8 MiB stack' %
                      (hits, name, deep, D.FMT_NAME[fmt], sig), dict(construct=name, hits=hits, deep=deep, fmt=fmt), res.get('err'))
            continue
        r.distinct.add((name, 'limit-hits', hits, fmt))
    return r


CONTEXTS = [('image-alt', '![%s](u.png)\n'), ('link-text', '[%s](http://example.com/)\n'), ('link-title', '[t](http://example.com/ "%s")\n'), ('atx-heading', '# %s #\n'),
            ('setext-heading', '%s\n=====\n'), ('table-cell', '| %s | b |\n|---|---|\n| c | d |\n'), ('footnote-inline', 'x[^%s]\n'), ('emphasis', '*%s*\n'),
            ('list-item', '* %s\n* other\n'), ('definition', 'term\n: %s\n'), ('reference-definition', '[foo]: %s\n\n[foo]\n'), ('caption', '| a |\n|---|\n| b |\n[%s]\n'),
            ('citation-locator', '[%s][#c]\n\n[#c]: cite\n'), ('metadata-value', 'Title: %s\n\nbody\n'), ('abbreviation-def', '[>AB]: %s\n\nAB\n'), ('glossary-inline', '[?(term) %s]\n')]


def work_context(job):
    """the same nest inside another syntactic position (image alt, link text, heading, cell, note...): the helper routines that print or scan those
    positions must be as bounded as the main writers -- stack high-water compared with the bare nest at the same size"""
    seed, nidx, nbytes = job
    r = core.JobResult()
    name, o, c, fill = CONSTRUCTS[nidx]
    nest = make_input(name, o, c, fill, nbytes, True).decode().rstrip('\n')
    base = run_cost('cov', D.FMT['html'], D.EXT_CLI, (nest + '\n').encode(), timeout=120)
    r.evaluations += 1
    if not (isinstance(base.get('rc'), int) and base['rc'] == 0 and 'stack' in base):
        return r
    for cname, tpl in CONTEXTS:
        data = (tpl % nest).encode()
        for fmt in (D.FMT['html'], D.FMT['latex']):
            res = run_cost('cov', fmt, D.EXT_CLI, data, timeout=120)
            r.evaluations += 1
            r.stats['child_runs_nest_in_context'] += 1
            if res['rc'] == 'timeout':
                continue
            if res['rc'] != 0:
                sig = signal.Signals(-res['rc']).name if isinstance(res['rc'], int) and res['rc'] < 0 else 'rc%s' % res['rc']
                r.violate('crash:%s:%s:in-%s' % (sig, name, cname), '%s nest of %d bytes inside a %s (%s): child ended with %s' % (name, nbytes, cname, D.FMT_NAME[fmt], sig),
                          dict(construct=name, context=cname, bytes=nbytes, fmt=fmt), res.get('err'))
                continue
            r.distinct.add((name, cname, fmt))
            r.sets['context_stack_ratio_x10'].add(int(10 * res['stack'] / max(1, base['stack'])))
            if res['stack'] > 2 * base['stack'] + 131072:
                r.violate('stack-grows:%s:in-%s' % (name, cname), '%s nest of %d bytes inside a %s (%s): stack high-water %d KiB vs %d KiB for the bare nest -- a helper recurses without the depth limit' %
                          (name, nbytes, cname, D.FMT_NAME[fmt], res['stack'] // 1024, base['stack'] // 1024), dict(construct=name, context=cname, bytes=nbytes, fmt=fmt, highwater=[base['stack'], res['stack']]))
    return r


def work_cost(job):
    seed, name, data, ks, fmt = job
    r = core.JobResult()
    pts = []
    for k in ks:
        res = run_cost('cov', fmt, D.EXT_CLI, PATTERNS[name](256 * k).encode() if name in RUN_PATTERNS else data * k, timeout=300)
        r.evaluations += 1
        if res.get('rc') != 0 or 'blocks' not in res:
            r.stats['cost run failed (crash: other checks; timeout: inconclusive)'] += 1
            if res.get('rc') == 'timeout':
                r.inconclusive.append('cost %s k=%d timed out' % (name, k))
            break
        pts.append((k, res['blocks'], res['outlen']))
    verdict, info = judge_series(pts)
    if pts:
        r.stats['basic_blocks_counted'] += sum(b for _, b, _ in pts)
    if info.get('judged'):
        r.stats['series_judged'] += 1
        r.sets['ratios_x100'].add(int(round(info['ratio'] * 100)))
        r.distinct.add((name, fmt))
    if verdict:
        r.violate('superlinear:%s:%s' % (D.FMT_NAME[fmt], name if name.startswith('path') or name.startswith('gen:') else 'corpus'),
                  '%s in %s: cost(d^%d) / cost(d^%d) is %.2f times the growth of input+output (tail slopes %s); blocks %s' %
                  (name, D.FMT_NAME[fmt], info['k1'], info['k0'], info['ratio'], info['tail_slopes'], [b for _, b, _ in pts]),
                  dict(seed_document=name, fmt=fmt, points=pts, head=core.show(data[:120])))
    if name.startswith('path1') or name.startswith('path6'):
        r.samples.append(dict(document=name, format=D.FMT_NAME[fmt], points=[dict(k=k, blocks=b, outlen=o) for k, b, o in pts], verdict=info))
    return r


PATTERNS = {
    'path1-nested-strong-emph': lambda n: ('*a **a\n' * n + 'b ' + 'a** a*\n' * n),
    'path2-close-unopened-emph': lambda n: 'a_\n' * n,
    'path3-open-unclosed-emph': lambda n: '_a\n' * n,
    'path4-close-unopened-links': lambda n: 'a]\n' * n,
    'path5-open-unclosed-links': lambda n: '[a\n' * n,
    'path6-mismatched-star-ul': lambda n: '*a_\n' * n,
    'path7-unbalanced-brackets': lambda n: '[[a]\n' * n,
    'path8-many-reference-defs': lambda n: ''.join('[r%d]: http://x/%d\n' % (i, i) for i in range(n)) + '\n' + ' '.join('[r%d]' % i for i in range(0, n, 7)) + '\n',
    'path9-many-footnotes': lambda n: ' '.join('x[^f%d]' % i for i in range(n)) + '\n\n' + ''.join('[^f%d]: n\n\n' % i for i in range(n)),
    'path10-backticks': lambda n: ' '.join('`' * (1 + i % 7) + 'a' for i in range(n)) + '\n',
    'path11-pipes': lambda n: '|a' * n + '|\n' + '|-' * n + '|\n',
    'path12-headers-toc': lambda n: '{{TOC}}\n\n' + ''.join('# h%d #\n\nx\n\n' % i for i in range(n)),
    # mixtures: every unit holds a matched pair *and* leaves an opener on the stack (per-type opener bookkeeping must stay exact)
    'path13-matched-then-mismatched-emph': lambda n: '_x_ *a_\n' * n,
    'path14-matched-then-mismatched-brackets': lambda n: '(x) [ a)\n' * n,
    'path15-code-span-then-open-emph': lambda n: '`x` *a\n' * n,
    'path16-link-then-open-bracket': lambda n: '[x](y) [a\n' * n,
    'path17-strong-then-open-ul': lambda n: '**x** _a*\n' * n,
    # one long run of emphasis delimiters (openers that can never be closed): repeated without a line break, so d^k is one run of 256 k characters
    'path18-star-run': lambda n: 'a' + '*' * n + 'b\n',
    'path19-underscore-run': lambda n: 'a ' + '_' * n + ' b\n',
    'path20-mixed-delimiter-run': lambda n: '*_' * (n // 2),
}
RUN_PATTERNS = ('path18-star-run', 'path19-underscore-run')         # generated at size 256 k (one run), not as k copies of a 256-character unit


def main():
    chk = core.Check(ID)
    thorough = chk.thorough
    chk.rule = ('stack: %d nesting constructs x {closed, unclosed} x opener runs of 10^3..10^%d bytes x writers on the shipped-flags build under an 8 MiB stack (signal = violation), '
                'stack high-water from the trace-pc callback must plateau between the two largest sizes, plus one no-pool ASan run per construct; cost: executed basic blocks of d^k '
                'for corpus/generated seeds d and k = 1..%d, slope between doublings <= %.2f once a run exceeds %d blocks (scale = max(k, output growth)), and 17 pathological '
                'patterns at N = 2^8..2^%d; distinct = (construct, closed, size, writer) runs that completed and (seed document, writer) series with >= 2 judged doublings' %
                (len(CONSTRUCTS), 6 if thorough else 5, 256 if thorough else 64, RATIO_MAX, BASE_BLOCKS, 16 if thorough else 14))
    chk.assumptions = ['cost = basic blocks executed inside the library (gcc -fsanitize-coverage=trace-pc), exact and independent of machine load',
                       'sizes up to 10^6 bytes and k up to 256: proportionality is decided on that range, not asymptotically']
    sizes = [1000, 10000, 100000, 1000000] if thorough else [1000, 10000, 40000, 100000]
    fmts_all = [D.FMT[x] for x in ('html', 'latex', 'beamer', 'memoir', 'fodt', 'opml', 'itmz')]
    jobs = []
    for idx in range(len(CONSTRUCTS)):
        rng = core.job_rng(chk.seed, ID, 'fmts', idx)
        fm = fmts_all if thorough else [D.FMT['html'], rng.choice(fmts_all[1:])]
        if not thorough and any(w in CONSTRUCTS[idx][0] for w in ('note', 'glossary', 'citation')):
            fm = [D.FMT['html'], D.FMT['latex'], D.FMT['fodt']]          # the three writers render notes in place in three different ways
        jobs.append((chk.seed, idx, sizes, fm, 300000 if thorough else 20000))
    chk.run_jobs(work_stack, jobs)
    cx = [i for i, cst in enumerate(CONSTRUCTS) if cst[0] in (('bracket', 'paren', 'star-emph', 'critic-add') if not thorough else ('bracket', 'image', 'paren', 'angle', 'star-emph', 'strong', 'dquote', 'critic-add', 'critic-sub', 'math-paren'))]
    chk.run_jobs(work_context, [(chk.seed, i, 100000 if not thorough else 400000) for i in cx])
    # (constructs whose every level creates a note are left out: 1005 x 1100 of them is a question about note *counts* -- C02's repeated blocks -- not about depth limits)
    lh = [i for i, cst in enumerate(CONSTRUCTS) if cst[0] in (('blockquote', 'bracket', 'star-emph', 'critic-add') if not thorough else [x[0] for x in CONSTRUCTS if x[1] is not None and x[0] not in ('footnote', 'citation') and not any(w in x[0] for w in ('note', 'glossary', 'citation'))])]
    chk.run_jobs(work_limit_hits, [(chk.seed, i, 1005, 200000 if not thorough else 1000000) for i in lh])
    # cost
    ks = [1, 2, 4, 8, 16, 32, 64] + ([128, 256] if thorough else [])
    cjobs = []
    c = gen.corpus()
    names = sorted(c)
    rng = core.job_rng(chk.seed, ID, 'seeds')
    pick = names if thorough else rng.sample(names, 14)
    for nme in pick:
        d = c[nme]
        if len(d) * ks[-1] > 6000000:
            continue
        for fmt in ([D.FMT['html'], D.FMT['latex'], D.FMT['fodt']] if thorough else [rng.choice([D.FMT['html'], D.FMT['latex'], D.FMT['fodt'], D.FMT['opml']])]):
            cjobs.append((chk.seed, nme, d if d.endswith(b'\n') else d + b'\n\n', ks, fmt))
    from lib import gendoc
    for j in range(6 if not thorough else 40):
        g = gendoc.random_document(core.job_rng(chk.seed, ID, 'gen', j)).encode('utf-8').replace(b'\r\n', b'\n').replace(b'\r', b'\n') + b'\n'
        cjobs.append((chk.seed, 'gen:%d' % j, g, ks, rng.choice([D.FMT['html'], D.FMT['latex'], D.FMT['fodt']])))
    pks = [1, 2, 4, 8, 16, 32, 64] + ([128, 256] if thorough else [])
    for nme, fn in PATTERNS.items():
        base = fn(256).encode()
        for fmt in ([D.FMT['html'], D.FMT['latex']] if thorough else [D.FMT['html']]):
            cjobs.append((chk.seed, nme, base, pks, fmt))
    chk.run_jobs(work_cost, cjobs)
    return chk.finish()
