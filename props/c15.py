"""C15 -- the exposed token tree is structurally sound and stays inside the source.

Monitor: the iterative invariant walker in harness/common.h, run inside the worker after
mmd_engine_parse_string, after mmd_engine_parse_substring on sub-ranges, and again after each export
in a random order of formats; plus the numeric relations between the published enums (enumprobe).
"""
import re, subprocess, os
from lib import core, gen, drv as D, build

ID = 'C15'
VARIANTS = ['asan', 'asan-nopool']
JUDGED = ['cycle', 'range', 'root', 'prev', 'order', 'mate', 'type']    # 'tail' is reported, not judged (DESIGN 4 C15)
EXPORT_FORMATS = [0, 2, 3, 4, 5, 9, 10, 1, 6, 8, 12]
NOTE_PARENTS = ('108', '109', '110', '111')   # PAIR_BRACKET_ABBREVIATION / FOOTNOTE / GLOSSARY / CITATION


def parse_walk(text):
    """yield (stage, dict of counts, msg, nodes, sig)"""
    for ln in text.decode(errors='replace').split('\n'):
        if not ln.strip():
            continue
        stage = ln.split(' ', 1)[0]
        kv = dict(re.findall(r'(\w+)=(\S*)', ln.split(' msg=')[0]))
        msg = ln.split(' msg=', 1)[1] if ' msg=' in ln else ''
        yield stage, kv, msg


def judge(rep, src, sub):
    """yield (violation key or None, stage, msg, nodes, ntail) -- one tuple per broken invariant class per walked
    tree (or one tuple with key None for a sound tree).  Stages after structural damage are skipped."""
    stages = list(parse_walk(rep.fields[0]))
    for idx, (stage, kv, msg) in enumerate(stages):
        keys = []
        for cls in JUDGED:
            if not int(kv.get(cls, 0)):
                continue
            first = [m for m in msg.split(';') if m.startswith(cls + ':')]
            f = dict(re.findall(r'(\w+)=(-?\d+)', first[0])) if first else {}
            when = 'parse' if stage == 'parse' else 'after-export'
            if cls == 'root':
                if sub or stage != 'parse':
                    continue            # parse_substring: the root's extent is not promised (DESIGN 9); exports do not move the root
                st, ln = int(f.get('start', 0)), int(f.get('len', 0))
                tail = src[st + ln:] if st == 0 and ln <= len(src) else None
                if tail is not None and tail.strip(b'\r\n \t') == b'':
                    keys.append('tree:root:%s:stops-before-trailing-blank-lines' % when)
                else:
                    keys.append('tree:root:%s:%s:last-block-type%s' % (when, 'len-short' if st == 0 and ln < len(src) else 'extent-differs', f.get('parent', '?')))
            else:
                key = 'tree:%s:%s:type%s:parent%s' % (cls, when, f.get('type', '?'), f.get('parent', '?'))
                if cls == 'prev' and when == 'after-export' and f.get('parent') in NOTE_PARENTS:
                    # the writers re-parent the content chain of an inline note (token_new_parent sets prev = NULL)
                    # while it is still linked from the bracket: one site, whatever the first content token is
                    key = 'tree:prev:after-export:inline-note-content-reparented:parent%s' % f.get('parent')
                if cls == 'order' and when == 'parse' and f.get('prevtype') in ('204', '205'):
                    # recursive_parse_list_item re-inserts the list marker in front of a block whose start still
                    # includes the markers of the enclosing levels ('-  -  - x'): one site, any block type
                    key = 'tree:order:parse:block-after-reinserted-list-marker'
                if sub:
                    key += ':substring'
                keys.append(key)
        if not keys:
            yield None, stage, msg, int(kv.get('nodes', 0)), int(kv.get('tail', 0))
        for k in keys:
            yield k, stage, msg, int(kv.get('nodes', 0)), int(kv.get('tail', 0))
        if any(not k.startswith('tree:root') for k in keys):
            return          # later stages inherit the damage


def shrink(s, v, ext, flags, args, key):
    d = s.driver(v)

    def still(c):
        try:
            rep = d.call('WALK', 0, ext, 0, flags, [c] + list(args[1:]))
        except Exception:
            return False
        return any(k == key for k, _, _, _, _ in judge(rep, c, bool(flags & 1)))
    if flags & 1:
        return args[0]
    return core.shrink_bytes(args[0], still, 250)


def enum_relations(r):
    exe = build.build('plain', ('enumprobe',))['enumprobe']
    out = subprocess.run([exe], stdout=subprocess.PIPE).stdout.decode()
    v = {}
    for ln in out.strip().split('\n'):
        k, val = ln.rsplit(' ', 1)
        v[k] = int(val)
    ph = open(os.path.join(gen.REPO, 'src', 'parser.h')).read()
    terms = [int(x) for x in re.findall(r'#define\s+\w+\s+(\d+)', ph)]
    checks = [
        ('largest token_types value < kMaxTokenTypes', v['OBJECT_REPLACEMENT_CHARACTER'] < v['kMaxTokenTypes']),
        ('BLOCK_BLOCKQUOTE > largest parser.h terminal', v['BLOCK_BLOCKQUOTE'] > max(terms)),
        ('largest cm_types value < kMaxTokenTypes', v['CM_PLAIN_TEXT'] < v['kMaxTokenTypes']),
        ('DOC_START_TOKEN == 0', v['DOC_START_TOKEN'] == 0),
        ('pair tables sized kMaxTokenTypes', v['sizeof(((token_pair_engine *)0)->can_open_pair) / sizeof(unsigned short)'] == v['kMaxTokenTypes']),
    ]
    for fam in ('BLOCK_H', 'HASH', 'MARKER_H', 'LINE_ATX_'):
        vals = [v['%s%d' % (fam, i)] for i in range(1, 7)]
        checks.append(('%s1..6 contiguous' % fam, vals == list(range(vals[0], vals[0] + 6))))
    for a, b in (('BLOCK_SETEXT_1', 'BLOCK_SETEXT_2'), ('MARKER_SETEXT_1', 'MARKER_SETEXT_2'), ('LINE_SETEXT_1', 'LINE_SETEXT_2')):
        checks.append(('%s,%s adjacent' % (a, b), v[b] == v[a] + 1))
    for name, ok in checks:
        r.evaluations += 1
        r.stats['enum_relations_checked'] += 1
        if not ok:
            r.violate('enum:' + name.replace(' ', '-'), 'enum relation broken: %s' % name, dict(values=v))
    r.samples.append(dict(kind='enum relations', values={k: v[k] for k in ('kMaxTokenTypes', 'OBJECT_REPLACEMENT_CHARACTER', 'BLOCK_BLOCKQUOTE', 'CM_PLAIN_TEXT')}, max_parser_terminal=max(terms)))


def gen_case(rng):
    r = rng.random()
    docs = gen.corpus_list()
    if r < 0.25:
        src = rng.choice(docs)
        if len(src) > 6000:
            a = rng.randrange(len(src) - 3000)
            src = src[a:a + rng.randint(200, 3000)]
    elif r < 0.5:
        from lib import gendoc
        src = gendoc.random_document(rng).encode('utf-8')
    else:
        src = gen.gen_bytes(rng)
    src = src.split(b'\0')[0]
    ext = gen.rand_ext(rng) & ~(D.EXT['PARSE_OPML'] | D.EXT['PARSE_ITMZ'])
    return src, ext


def work(job):
    seed, lo, hi = job
    r = core.JobResult()
    if lo == 0:
        enum_relations(r)
    with core.Session(r) as s:
        for i in range(lo, hi):
            rng = core.job_rng(seed, ID, i)
            src, ext = gen_case(rng)
            sub = rng.random() < 0.2
            fmts = bytes(rng.sample(EXPORT_FORMATS, rng.randint(1, 4)))
            if sub:
                n = len(src)
                a = rng.randrange(n + 1)
                args = [src, b'', a, rng.randrange(n - a + 1)]
                flags = 1
            else:
                args = [src, fmts]
                flags = 0
            for v in VARIANTS:
                rep = s.call(v, 'WALK', 0, ext, rng.choice(gen.LANGS), flags, args, what='[walk]', crash_is_violation=False)
                r.evaluations += 1
                if rep is None:
                    r.stats['crashed (C01 territory)'] += 1
                    continue
                case = dict(requests=[D.req_to_json(v, 'WALK', 0, ext, 0, flags, args)])
                nontrivial = False
                for key, stage, msg, nodes, ntail in judge(rep, src, sub):
                    r.stats['trees_walked'] += 1
                    r.stats['tokens_walked'] += nodes
                    if nodes >= 8:
                        nontrivial = True
                    if ntail:
                        r.stats['tail_pointer_stale (reported, not judged)'] += 1
                    if key and sum(1 for x in r.violations if x.key == key) < 1:
                        red = shrink(s, v, ext, flags, args, key)
                        case = dict(requests=[D.req_to_json(v, 'WALK', 0, ext, 0, flags, [red] + list(args[1:]))], original_b64=core.b64(src))
                        r.violate(key, '%s at stage %s (%s) [%s]' % (key, stage, msg[:200], v), case, core.show(red, 600))
                    elif key:
                        r.violate(key, key, case)
                types = rep.fields[1]
                for t in range(len(types)):
                    if types[t]:
                        r.sets['token_types_seen'].add(t)
                if nontrivial:
                    r.distinct.add(core.h64(src, ext, flags, args[1:]))
            if i - lo < 1:
                r.samples.append(dict(source=core.show(src, 200), ext=hex(ext), exports=[D.FMT_NAME[f] for f in fmts] if not sub else 'substring'))
    return r


def main():
    chk = core.Check(ID)
    n = chk.scale(15000, 500000)
    chk.rule = ('corpus slices, generated documents and hostile bytes x random extension subsets; walker run after parse, after parse_substring on random '
                'sub-ranges, and after each of 1-4 exports in random format order, on pool and no-pool builds; non-trivial = tree with >= 8 tokens; '
                'distinct = distinct (source, ext, export order/sub-range)')
    chk.assumptions = ['the tail shortcut pointer is reported but not judged (the property speaks of next/prev/mate)']
    for e in chk.known.witnesses():
        r = core.JobResult()
        with core.Session(r) as s:
            for rq in e['witness'].get('requests', []):
                op, fmt, ext, lang, flags, args = D.req_from_json(rq)
                rep = s.call(rq['variant'], op, fmt, ext, lang, flags, args, crash_is_violation=False)
                r.evaluations += 1
                if rep is not None:
                    for stage, kv, msg in parse_walk(rep.fields[0]):
                        for cls in JUDGED:
                            if int(kv.get(cls, 0)):
                                r.violate(e['key'], 'witness of %s still fails: %s' % (e['key'], msg[:200]), dict(requests=[rq]))
        chk.merge(r)
    chunk = max(50, n // 64)
    chk.run_jobs(work, [(chk.seed, lo, min(n, lo + chunk)) for lo in range(0, n, chunk)])
    return chk.finish()
