"""C13 -- transclusion terminates on any include graph and substitutes exactly.

Reference model (Python): recursive expansion by the documented rules (search path / 'transclude
base' override relative to the including file, `.*` by format, a file being expanded is not expanded
again inside itself, missing files keep their marker, metadata of an included file removed after its
own expansion, inserted text not rescanned, {{TOC}} is not a file, markers of 1000+ bytes skipped).
Acyclic graphs: result and manifest must equal the model byte for byte.  Cyclic graphs: the call must
return and the output stay within the size bound; CLI with a file argument agrees with the library.
"""
import os, re, shutil, subprocess, tempfile, collections
from lib import core, drv as D, build, clibatch

WORD_RE = re.compile(r'(?<![A-Za-z0-9])w\d+(?![A-Za-z0-9])')
ID = 'C13'
WILD = {0: '.html', 12: '.html', 1: '.html', 2: '.tex', 3: '.tex', 4: '.tex', 5: '.fodt', 6: '.fodt'}
FMTS = [0, 2, 5, 11, 3, 4]          # html latex fodt mmd beamer memoir


class G:
    pass


def gen_graph(rng, tdir):
    """files: name -> dict(meta=[(k,v)], body=str with markers); returns G"""
    g = G()
    n = rng.randint(1, 8)
    names = []
    pool = ['a.txt', 'b.md', 'c.txt', 'sub/d.txt', 'sub/e.md', 'sub/deep/f.txt', 'g h.txt', 'w.html', 'w.tex', 'w.fodt', 'w.txt', 'sub/x.html', 'sub/x.txt', 'z.txt',
            'TOC-notes.txt', 'TOCextra.txt', 'sub/TOC.txt', 'toc.txt', 'TOC.md']          # only the exact marker {{TOC}} is not a file
    names = ['top.txt'] + rng.sample(pool, n - 1)
    kind = rng.choice(['tree', 'dag', 'dag', 'chain', 'selfloop', 'cycle', 'mixed'])
    g.kind = kind
    files = {}
    wn = [0]

    def w():
        wn[0] += 1
        return 'w%d' % wn[0]
    order = list(names)
    for idx, name in enumerate(order):
        meta = []
        if name != 'top.txt' and rng.random() < 0.4:
            meta.append(('Title', 'T ' + w()))
        if rng.random() < (0.5 if kind in ('selfloop', 'cycle') else 0.25):
            meta.append(('transclude base', rng.choice(['.', 'sub', 'sub/', './', '..', tdir, os.path.join(tdir, 'sub')])))
        if meta and rng.random() < 0.3:
            meta.append(('Author', 'A {{a.txt}} ' + w()))        # a marker inside metadata is not expanded
        targets = []
        later = order[idx + 1:]
        if kind in ('tree', 'chain'):
            targets = later[:1] if kind == 'chain' else rng.sample(later, min(len(later), rng.randint(0, 2)))
        elif kind == 'dag':
            targets = rng.sample(later, min(len(later), rng.randint(0, 3)))
            if targets and rng.random() < 0.4:
                targets.append(targets[0])                       # same file twice in one document
        elif kind == 'selfloop':
            targets = rng.sample(later, min(len(later), rng.randint(0, 2))) + ([name] if rng.random() < 0.6 else [])
        elif kind == 'cycle':
            targets = rng.sample(order, min(len(order), rng.randint(1, 2)))
        else:
            targets = rng.sample(order, min(len(order), rng.randint(0, 3)))
        parts = [w()]
        for t in targets:
            parts.append(('M', t))
            parts.append(w())
        if rng.random() < 0.3:
            parts.append(('RAW', rng.choice(['{{missing.txt}}', '{{TOC}}', '{{TOCmissing.txt}}', '{{TOC:2-3}}', '{{' + 'n' * rng.choice([997, 998, 999, 1000, 1001, 1200]) + '}}', '{{unterminated', '}} {{', '{{sub/nope.*}}',
                                           '{{ ' + 'stray opener followed by a long run of text ' * rng.choice([20, 23, 24, 30])])))
            parts.append(w())
            if rng.random() < 0.5 and len(parts) > 3:
                # not always at the end: what follows a malformed or over-long marker must still be found
                raw, word = parts[-2], parts[-1]
                del parts[-2:]
                at = rng.randrange(0, len(parts) // 2 + 1) * 2
                at = min(at, len(parts) - 1)
                parts[at + 1:at + 1] = [raw, word] if isinstance(parts[at], str) else [word, raw]
        files[name] = dict(meta=meta, parts=parts, final_nl=rng.random() < 0.8, crlf=rng.random() < 0.1)
    g.files, g.names = files, names
    g.tdir = tdir
    return g


def search_of(tdir, fname):
    return None


def marker_for(rng, g, frm, to, search_folder, fmt):
    """spell a marker in file `frm` that resolves to file `to` given the search folder in effect"""
    # relative to the search folder in effect (a plain string prefix relation), else absolute
    target_abs = os.path.join(g.tdir, to)
    base, ext = os.path.splitext(to)
    sf = search_folder.rstrip('/') + '/'
    if target_abs.startswith(sf):
        rel = target_abs[len(sf):]
    else:
        rel = target_abs
    if os.path.basename(base) in ('w', 'x') and fmt in WILD and ext == WILD[fmt] and rng.random() < 0.7:
        rel = rel[:-len(ext)] + '.*'
    elif os.path.basename(base) in ('w', 'x') and fmt == 11 and ext == '.txt' and False:
        pass
    return '{{%s}}' % rel


def materialise(rng, g, fmt):
    """write files; marker spellings depend on the search folder of the including file, so resolve top-down lazily:
    each file's text is fixed once (markers are spelled for the search folder in effect when the file is first reached)."""
    texts = {}
    # search folder in effect for a file depends on who includes it; to keep one text per file we spell every marker as an
    # absolute path unless the including file is reached with the default search folder (tdir) -- both forms are legal syntax
    for name, f in g.files.items():
        own_base = dict(f['meta']).get('transclude base')
        here = os.path.dirname(os.path.join(g.tdir, name)) + '/'
        out = ''
        for p in f['parts']:
            if isinstance(p, tuple) and p[0] == 'M':
                style = rng.random()
                tgt = os.path.join(g.tdir, p[1])
                base, ext = os.path.splitext(p[1])
                wild = os.path.basename(base) in ('w', 'x') and WILD.get(fmt) == ext and rng.random() < 0.7
                if style < 0.5 or own_base is not None or name != 'top.txt':
                    spelled = tgt                                   # absolute
                else:
                    spelled = p[1]                                  # relative to the top file's directory (the default search path)
                if wild:
                    spelled = spelled[:-len(ext)] + '.*'
                out += '{{%s}}' % spelled
            elif isinstance(p, tuple):
                out += p[1]
            else:
                out += p + rng.choice([' ', '\n', '\n\n'])
        body = out + ('\n' if f['final_nl'] else '')
        meta = ''.join('%s: %s\n' % kv for kv in f['meta'])
        text = (meta + '\n' + body) if meta else body
        if re.match(r'^[A-Za-z0-9][A-Za-z0-9_ \t\-\.]*:', text) and not meta:
            text = 'x ' + text
        if not meta and rng.random() < 0.15:
            # a first line with a colon that is *not* metadata (a list item, quote, heading): nothing may be stripped from such a file
            text = rng.choice(['1. Step: do it\n2. Next: more\n\n', '* Item: text\n\n', '> Quote: text\n\n', '# Head: text\n\n', '- Build: run make\n\n']) + text
        if f['crlf']:
            text = text.replace('\n', '\r\n')
        texts[name] = dict(text=text, meta_len=len(meta.replace('\n', '\r\n') if f['crlf'] else meta), has_meta=bool(meta), base=own_base)
        path = os.path.join(g.tdir, name)
        os.makedirs(os.path.dirname(path), exist_ok=True)
        with open(path, 'wb') as fh:
            fh.write(text.encode('utf-8'))
    return texts


def with_sep(p):
    return p if p.endswith('/') else p + '/'


def dir_base(d, b):
    if b is not None and b.startswith('/'):
        return b
    return with_sep(d) + (b or '')


def model(texts, tdir, top, fmt):
    """returns (expanded text, manifest list, cyclic flag)"""
    manifest = []
    cyc = [False]
    by_path = {os.path.join(tdir, n): n for n in texts}

    def expand(text, search_path, source_path, stack, name):
        search = dir_base(search_path, None)
        info = texts.get(name)
        off = 0
        if info and info['has_meta']:
            off = info['meta_len']
            if info['base'] is not None:
                src_folder = source_path[:source_path.rfind('/') + 1] if '/' in source_path else source_path
                search = dir_base(src_folder, re.sub(r'\s+', ' ', info['base']).strip())
        depth = len(stack)
        pos = text.find('{{', off)
        while pos != -1:
            stop = text.find('}}', pos)
            if stop == -1:
                break
            last = pos
            inner = text[pos + 2:stop]
            if len((inner).encode('utf-8')) + 2 < 1000:
                if inner == 'TOC':
                    pos = text.find('{{', stop)
                    continue
                fp = inner if inner.startswith('/') else with_sep(search) + inner
                if len(inner) >= 2 and fmt != 11 and inner.endswith('.*'):
                    fp = fp[:-2] + WILD.get(fmt, '.txt')
                # identity of a file, not the spelling of its path ("./a.txt" and "a.txt" are the same file being expanded)
                if os.path.realpath(fp) in [os.path.realpath(x) for x in stack[:depth]]:
                    cyc[0] = True
                    last += 2
                else:
                    stack.append(fp)
                    if fp not in manifest:
                        manifest.append(fp)
                    nm = by_path.get(fp)
                    real = os.path.isfile(fp)
                    if real:
                        sub_text = open(fp, 'rb').read().decode('utf-8')
                        if sub_text.startswith('﻿'):
                            sub_text = sub_text[1:]
                        # a path spelled differently from the generator's (./ or ..) still names a generated file
                        key = nm
                        if key is None:
                            rp = os.path.realpath(fp)
                            key = by_path.get(rp)
                        exp = expand(sub_text, search, fp, stack, key)
                        inf = texts.get(key)
                        if inf and inf['has_meta']:
                            exp = exp[inf['meta_len']:]
                        text = text[:pos] + exp + text[stop + 2:]
                        last += len(exp)
                    else:
                        last += 2
                    stack.pop()
            else:
                last += 2
            pos = text.find('{{', last)
        del stack[depth:]
        return text
    out = expand(texts[top]['text'], tdir, os.path.join(tdir, top), [], top)
    return out, manifest, cyc[0]


def run_cli(cli, args, cwd):
    env = dict(os.environ, ASAN_OPTIONS='detect_leaks=0', UBSAN_OPTIONS='print_stacktrace=1')
    try:
        p = subprocess.run([cli] + args, stdout=subprocess.PIPE, stderr=subprocess.PIPE, env=env, cwd=cwd, timeout=120)
        return p.returncode, p.stdout
    except subprocess.TimeoutExpired:
        return 'timeout', b''


def work(job):
    seed, lo, hi = job
    r = core.JobResult()
    cli = build.build('asan', ('cli',))['cli']
    with core.Session(r) as s:
        for i in range(lo, hi):
            rng = core.job_rng(seed, ID, i)
            tdir = tempfile.mkdtemp(prefix='mmdv-c13-', dir=D.SCRATCH_ROOT)
            try:
                g = gen_graph(rng, tdir)
                fmt = rng.choice(FMTS)
                texts = materialise(rng, g, fmt)
                top = 'top.txt'
                src = texts[top]['text'].encode('utf-8')
                exp, man, cyclic = model(texts, tdir, top, fmt)
                rq = D.req_to_json('asan', 'TRANSCLUDE', fmt, 0, 0, 0, [src, tdir, os.path.join(tdir, top)])
                rep = s.call('asan', 'TRANSCLUDE', fmt, 0, 0, 0, [src, tdir, os.path.join(tdir, top)], hang_is_violation=True, crash_is_violation=True,
                             what='[include graph %s]' % g.kind)
                r.evaluations += 1
                if rep is None or rep.status:
                    continue
                files_dump = {n: core.show(t['text'], 400) for n, t in texts.items()}
                case = dict(requests=[rq], files=files_dump, note='files must be recreated under the same directory names to replay')
                got, gman = rep.fields[0].decode('utf-8', 'replace'), [l for l in rep.fields[1].decode('utf-8', 'replace').split('\n') if l]
                S = max(len(t['text'].encode()) for t in texts.values())
                m = max(t['text'].count('{{') for t in texts.values())
                nfiles = len(texts)
                bound = S * (m + 1) ** (nfiles + 1) + S
                if len(rep.fields[0]) > bound:
                    r.violate('size-bound', 'output of %d bytes exceeds the bound %d for %d files of <= %d bytes with <= %d markers' % (len(rep.fields[0]), bound, nfiles, S, m), case)
                if not cyclic:
                    r.stats['acyclic_graphs_compared'] += 1
                    if got != exp:
                        k = 0
                        while k < min(len(got), len(exp)) and got[k] == exp[k]:
                            k += 1
                        feat = 'base' if any(t['base'] for t in texts.values()) else ('wildcard' if '.*' in ''.join(t['text'] for t in texts.values()) else ('meta' if any(t['has_meta'] for n, t in texts.items() if n != top) else 'plain'))
                        r.violate('expansion-differs:%s' % feat, 'transcluded text differs from the reference expansion at char %d (%s graph)' % (k, g.kind), case,
                                  'expected: %s\ngot     : %s' % (core.show(exp[max(0, k - 60):k + 100]), core.show(got[max(0, k - 60):k + 100])))
                    elif gman != man and not any('\n' in x or '\r' in x for x in man):        # the worker reports the manifest one entry per line
                        r.violate('manifest-differs', 'manifest %s, reference %s' % ([os.path.relpath(x, tdir) for x in gman], [os.path.relpath(x, tdir) for x in man]), case)
                    elif len(set(gman)) != len(gman) and not any('\n' in x or '\r' in x for x in man):
                        r.violate('manifest-duplicate', 'manifest lists a file twice: %s' % gman, case)
                else:
                    r.stats['cyclic_graphs_terminated'] += 1
                    r.stats['cyclic_model_agrees (reported, not judged)'] += int(got == exp)
                    # "a file being expanded is not expanded again inside itself": every file's own words appear at most once per
                    # inclusion path without repetition -- that count is what the reference expansion holds
                    ce, cg = collections.Counter(WORD_RE.findall(exp)), collections.Counter(WORD_RE.findall(got))
                    r.stats['cyclic_graphs_path_counted'] += 1
                    over = sorted(w for w in cg if w in ce and cg[w] > ce[w])
                    if over:
                        feat = 'base' if any(t['base'] for t in texts.values()) else ('wildcard' if '.*' in ''.join(t['text'] for t in texts.values()) else 'plain')
                        r.violate('cycle-expanded-again:%s' % feat, 'a file inside a cycle was expanded more often than once per inclusion path: word %s appears %d times, %d paths reach it (%s graph)' %
                                  (over[0], cg[over[0]], ce[over[0]], g.kind), case, 'output length %d, reference %d' % (len(got), len(exp)))
                # manifest through the API families
                if i % 3 == 0:
                    fam = rng.randrange(3)
                    rep2 = s.call('asan', 'MANIFEST', 0, D.EXT_CLI, 0, fam, [src, tdir, os.path.join(tdir, top)], hang_is_violation=True, crash_is_violation=True)
                    r.evaluations += 1
                    if rep2 is not None and rep2.status == 0 and not cyclic:
                        # the manifest functions expand for FORMAT_MMD... compare only when no wildcard is involved
                        gm2 = [l for l in rep2.fields[0].decode('utf-8', 'replace').split('\n') if l]
                        if '.*' not in ''.join(t['text'] for t in texts.values()) and gm2 != man and fmt == 11 and not any('\n' in x or '\r' in x for x in man):
                            r.violate('manifest-api-differs', 'mmd_*_transclusion_manifest gives %s, reference %s' % (gm2, man), dict(requests=[D.req_to_json('asan', 'MANIFEST', 0, D.EXT_CLI, 0, fam, [src, tdir, os.path.join(tdir, top)])], files=files_dump))
                # CLI with a file argument agrees with the library
                if i % 5 == 0:
                    rc, out = run_cli(cli, ['-t', 'mmd', 'top.txt'], tdir)
                    r.evaluations += 1
                    r.stats['cli_invocations'] += 1
                    if rc == 'timeout':
                        r.violate('cli-hang', 'multimarkdown -t mmd top.txt did not finish within 120 s', case)
                    elif rc == 0:
                        rep3 = s.call('asan', 'TRANSCLUDE', 11, 0, 0, 0, [src, tdir, os.path.join(tdir, top)], hang_is_violation=True, crash_is_violation=True)
                        # cyclic graphs: only termination is promised (the CLI spells paths relative to '.', so its cycle guard sees other strings)
                        if not cyclic and rep3 is not None and rep3.status == 0 and out != rep3.fields[0] and b'mmd header' not in src.lower() and b'mmd footer' not in src.lower():
                            r.violate('cli-differs', 'CLI -t mmd output differs from mmd_transclude_source', case, 'cli: %s\nlib: %s' % (core.show(out, 300), core.show(rep3.fields[0], 300)))
                if i % 40 == 0:
                    # batch mode: every file's markers resolve against that file's own directory
                    clibatch.batch_vs_single(r, cli, rng, {'transclude'} | set(f for f in ('footer', 'title') if rng.random() < 0.5), [[], [], ['--nosmart']], keyprefix='cli-batch-transclusion-differs')
                if len(texts) > 1:
                    r.distinct.add(core.h64(i, seed))
                r.sets['graph_kinds'].add(g.kind + (':cyclic' if cyclic else ':acyclic'))
                if i - lo < 1:
                    r.samples.append(dict(kind=g.kind, format=D.FMT_NAME[fmt], files=files_dump, expected=core.show(exp, 300)))
            finally:
                shutil.rmtree(tdir, ignore_errors=True)
    return r


def main():
    chk = core.Check(ID)
    n = chk.scale(2500, 60000)
    chk.rule = ('graph i = f(VERIF_SEED, i): 1-8 files (nested directories, names with spaces, .html/.tex/.fodt/.txt twins for wildcards) wired as chain / tree / DAG with sharing '
                'and repeated inclusion / self-loop / cycle / arbitrary; files with and without metadata, transclude-base overrides (., sub, .., absolute), markers inside '
                'metadata, missing targets, {{TOC}}, 997-1200 byte markers, unterminated markers, CRLF, no final newline; x {html, latex, fodt, mmd}; acyclic: byte equality with '
                'the reference expansion and manifest; cyclic: termination and size bound; CLI every 5th; non-trivial = >= 2 files; distinct = graphs')
    chk.assumptions = ['for cyclic graphs only termination and the size bound are judged (what the property promises); the reference model\'s reading of the cycle guard is reported only']
    chunk = max(10, n // 64)
    chk.run_jobs(work, [(chk.seed, lo, min(n, lo + chunk)) for lo in range(0, n, chunk)])
    return chk.finish()
